/* Findings in the UNMODIFIED library (memory safety / definition errors):

   mode 0: a symbol name longer than the error message buffer overflows
           grammar->error_message in yaep_error (vsprintf, the length assert
           is compiled out): heap-buffer-overflow write under ASan, SIGSEGV
           without.  Here: a 399 character terminal name declared twice.
   mode 1: a terminal with code INT_MAX (or INT_MAX - 1): `max_code - min_code'
           overflows in symb_finish_adding_terms (min_code is always -2, the
           code of the internal terminal `error'), the dense translation
           vector is chosen with a negative size and the valid definition
           fails with YAEP_NO_MEMORY (ASan: allocation-size-too-big).

   Build (from the root of the source tree):
     bison -o out/findings/sgramm.c src/sgramm.y
     gcc -g -fsanitize=address -Isrc -Iout/findings src/allocate.c \
         src/hashtab.c src/objstack.c src/vlobject.c src/yaep.c \
         out/findings/overflow.c -o out/findings/overflow
   Run: out/findings/overflow 0 ; out/findings/overflow 1  */
#include <stdio.h>
#include <stdlib.h>
#include <string.h>
#include <limits.h>
#include "yaep.h"
static char longname[400];
static int nt, nr, mode;
static const char *rt (int *code)
{
  nt++;
  if (mode == 0)
    {
      if (nt == 1) { *code = 1; return longname; }
      if (nt == 2) { *code = 2; return longname; }
      return NULL;
    }
  else
    {
      if (nt == 1) { *code = INT_MAX; return "a"; }
      return NULL;
    }
}
static const char *rr (const char ***rhs, const char **an, int *cost, int **tr)
{
  static const char *r[] = {"a", NULL};
  static int t[] = {0, -1};
  nr++;
  if (nr == 1) { *rhs = r; *an = NULL; *cost = 0; *tr = t; return "S"; }
  return NULL;
}
int main (int argc, char **argv)
{
  struct grammar *g = yaep_create_grammar ();
  int rc;
  mode = argc > 1 ? atoi (argv[1]) : 0;
  memset (longname, 'n', 399);
  rc = yaep_read_grammar (g, 1, rt, rr);
  printf ("rc=%d code=%d msglen=%zu\n", rc, yaep_error_code (g), strlen (yaep_error_message (g)));
  yaep_free_grammar (g);
  return 0;
}
