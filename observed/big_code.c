/* Observed on the UNMODIFIED sources.
   Build: bison -o out/observed/sgramm.c src/sgramm.y
          gcc -g -Isrc -Iout/observed src/allocate.c src/hashtab.c src/objstack.c src/vlobject.c src/yaep.c out/observed/big_code.c -o out/observed/big_code
   A terminal with the valid non-negative code INT_MAX - 1 or INT_MAX makes
   yaep_read_grammar fail with YAEP_NO_MEMORY ("no memory"): in
   symb_finish_adding_terms `max_code - min_code' (min_code is -2, the code
   of the internal terminal `error') overflows, the result is negative, the
   dense vector symb_code_trans_vect is chosen and about 2^64 bytes are
   requested.  (Under AddressSanitizer the program is aborted with
   allocation-size-too-big.)  Code INT_MAX - 2 works.  Exit code 1 if the
   defect is present.  */
#include <stdio.h>
#include <limits.h>
#include "yaep.h"

static int nt, nr, bigcode;

static const char *
rt (int *code)
{
  if (nt++ != 0)
    return NULL;
  *code = bigcode;
  return "b";
}

static const char *
rr (const char ***rhs, const char **an, int *c, int **tr)
{
  static const char *r[] = { "b", NULL };
  static int t[] = { 0, -1 };

  if (nr++ != 0)
    return NULL;
  *rhs = r;
  *an = NULL;
  *c = 0;
  *tr = t;
  return "S";
}

int
main (void)
{
  static const int codes[] = { INT_MAX - 2, INT_MAX - 1, INT_MAX };
  int i, rc, bad = 0;

  for (i = 0; i < 3; i++)
    {
      struct grammar *g = yaep_create_grammar ();

      bigcode = codes[i];
      nt = nr = 0;
      rc = yaep_read_grammar (g, 1, rt, rr);
      printf ("code %d: yaep_read_grammar returns %d (%s)\n", bigcode, rc,
	      yaep_error_message (g));
      bad |= rc != 0;
      yaep_free_grammar (g);
    }
  return bad;
}
