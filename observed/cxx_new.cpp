/* Observation on the UNMODIFIED libyaep++ (C17 / C16 under memory failure):
   the C++ containers and yaep.c's __cplusplus branches create their
   objects with the global operator new (new os, new vlo, new hash_table,
   also in hash_table::expand_hash_table), which does not go through the
   YaepAllocator.  If such a request fails, std::bad_alloc leaves
   yaep::parse_grammar / yaep::parse (through C frames, skipping the
   setjmp based clean-up) instead of YAEP_NO_MEMORY being returned.

   Build (from the worktree root):
     bison -o out/observed/sgramm.c src/sgramm.y
     gcc -g -c -Isrc src/allocate.c -o out/observed/allocate.o
     g++ -g -Isrc -Iout/observed out/observed/allocate.o src/hashtab.cpp src/objstack.cpp \
         src/vlobject.cpp src/yaep.cpp out/observed/cxx_new.cpp -o out/observed/cxx_new
   Exit status 0: every failure was reported as YAEP_NO_MEMORY/NULL;
   1: an exception escaped from the library.  */
#include <stdio.h>
#include <stdlib.h>
#include <new>
#include "yaep.h"

static long n_new, fail_new;

void *
operator new (size_t size)
{
  void *p;

  n_new++;
  if (n_new == fail_new || (p = malloc (size)) == NULL)
    throw std::bad_alloc ();
  return p;
}

void
operator delete (void *p) noexcept
{
  free (p);
}

void
operator delete (void *p, size_t) noexcept
{
  free (p);
}

static const char *description = "\nTERM;\nE : E '+' 'a' # plus (0 2)\n  | 'a' # 0\n  ;\n";

int
main (void)
{
  yaep *e = new yaep ();
  long k, total;
  int escaped = 0;

  n_new = 0;
  fail_new = 0;
  if (e->parse_grammar (1, description) != 0)
    return 2;
  total = n_new;
  delete e;
  printf ("%ld operator new requests in yaep::parse_grammar\n", total);
  for (k = 1; k <= total; k++)
    {
      fail_new = 0;
      e = new yaep ();
      n_new = 0;
      fail_new = k;
      try
	{
	  int rc = e->parse_grammar (1, description);

	  if (rc != YAEP_NO_MEMORY)
	    printf ("k=%ld: code %d\n", k, rc);
	}
      catch (std::bad_alloc &)
	{
	  printf ("k=%ld: std::bad_alloc escaped from yaep::parse_grammar\n", k);
	  escaped++;
	}
      fail_new = 0;
      /* the object is not deleted: its state is unknown */
    }
  return escaped != 0;
}
