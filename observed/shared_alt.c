/* Experiment on the UNMODIFIED library: an alternative list shared by two
   abstract nodes (copy_anode) under cost pruning.
   Observed: (1) the same abstract node reachable twice from the kept DAG gets
   a NEGATIVE cost in the returned tree (traverse_pruned_translation flips
   the visit flag once per visit); (2) of two abstract nodes `s' which share
   one alternative list (copy_anode) only one keeps both equal-cost
   alternatives r1|r2, the other one gets r2 only (the shared list is pruned
   twice).  No block is leaked or freed twice (C13 holds).  Exit 2 = negative
   cost seen; argument 0 switches the cost flag off (exit 0).
     bison -o out/observed/sgramm.c src/sgramm.y
     gcc -g -fsanitize=address -Isrc -Iout/observed src/allocate.c src/hashtab.c \
         src/objstack.c src/vlobject.c src/yaep.c out/observed/shared_alt.c -o out/observed/shared_alt */
#include "yaep.h"
#include "track.h"
static const char *descr =
  "S : L M R     # s 1 (0 1 2)\n"
  "  ;\n"
  "L : 'a'       # l1 1 (0)\n"
  "  | 'a' 'a'   # l2 1 (0 1)\n"
  "  ;\n"
  "M : 'a'       # m1 1 (0)\n"
  "  | 'a' 'a'   # m2 1 (0 1)\n"
  "  ;\n"
  "R : 'r'       # r1 1 (0)\n"
  "  | Q         # r2 1 (0)\n"
  "  ;\n"
  "Q : 'r'       # 0\n"
  "  ;\n";
static const char *input = "aaar";
static int pos;
static int read_tok (void **attr) { *attr = NULL; return input[pos] ? input[pos++] : -1; }
static void synt_err (int a, void *b, int c, void *d, int e, void *f) {}
static int ntcb;
static void termcb (struct yaep_term *t) { ntcb++; }
static int neg;
static void
walk (struct yaep_tree_node *n, int depth)
{
  int i;
  if (!t_is_live (n)) { printf ("%*sDEAD NODE\n", depth, ""); return; }
  switch (n->type)
    {
    case YAEP_ANODE:
      printf ("%*s%s cost=%d\n", depth, "", n->val.anode.name, n->val.anode.cost);
      if (n->val.anode.cost < 0) neg++;
      for (i = 0; n->val.anode.children[i]; i++) walk (n->val.anode.children[i], depth + 2);
      break;
    case YAEP_ALT:
      printf ("%*sALT\n", depth, "");
      walk (n->val.alt.node, depth + 2);
      if (n->val.alt.next) walk (n->val.alt.next, depth);
      break;
    case YAEP_TERM: printf ("%*sterm %c\n", depth, "", n->val.term.code); break;
    default: printf ("%*snil/err\n", depth, "");
    }
}
int
main (int argc, char **argv)
{
  struct grammar *g = yaep_create_grammar ();
  struct yaep_tree_node *root;
  int amb, rc;
  yaep_set_one_parse_flag (g, 0);
  yaep_set_cost_flag (g, argc > 1 ? atoi (argv[1]) : 1);
  if (yaep_parse_grammar (g, 1, descr) != 0) { printf ("%s\n", yaep_error_message (g)); return 10; }
  rc = yaep_parse (g, read_tok, synt_err, t_alloc, t_free, &root, &amb);
  printf ("rc=%d amb=%d\n", rc, amb);
  yaep_free_grammar (g);
  walk (root, 0);
  yaep_free_tree (root, t_free, termcb);
  printf ("allocated %d unreleased %d bad frees %d termcb %d negative costs %d\n", nblk, t_live (), bad_free, ntcb, neg);
  return (t_live () != 0 || bad_free != 0) ? 1 : neg ? 2 : 0;
}
