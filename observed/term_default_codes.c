/* Observed on the UNMODIFIED sources.
   Build: bison -o out/observed/sgramm.c src/sgramm.y
          gcc -g -Isrc -Iout/observed src/allocate.c src/hashtab.c src/objstack.c src/vlobject.c src/yaep.c out/observed/term_default_codes.c -o out/observed/term_default_codes
   doc/yaep.txt: "Terminal code is optional.  If it is omitted, the terminal
   code will the next free code starting with 256."  In set_sgrammar
   (src/sgramm.y) the local `int code = 256' is overwritten by
   `code = setjmp (error_longjump_buff)', so the codes are assigned from 0:
   `TERM x y;' gives x = 0 and y = 1, 256 and 257 are invalid token codes.
   The codes are also not "the next free" ones: a terminal without code can
   collide with a character terminal (`TERM x y; S : x y '^A';', where ^A is
   the character with code 1, is rejected with "repeated code").  Exit code 1 if the defect is present.  */
#include <stdio.h>
#include "yaep.h"

static int tok[3], n;

static int
rd (void **a)
{
  *a = NULL;
  return n < 2 ? tok[n++] : -1;
}

static void
se (int e, void *ea, int s, void *sa, int r, void *ra)
{
}

static int
try (struct grammar *g, int c1, int c2)
{
  struct yaep_tree_node *root;
  int amb, rc;

  tok[0] = c1;
  tok[1] = c2;
  n = 0;
  rc = yaep_parse (g, rd, se, NULL, NULL, &root, &amb);
  if (rc == 0 && root != NULL)
    yaep_free_tree (root, NULL, NULL);
  printf ("tokens %d %d: yaep_parse returns %d\n", c1, c2, rc);
  return rc;
}

int
main (void)
{
  struct grammar *g = yaep_create_grammar ();
  int bad = 0, rc;

  if (yaep_parse_grammar (g, 1, "TERM x y;\nS : x y;\n") != 0)
    return 2;
  bad |= try (g, 256, 257) != 0;	/* documented codes: rejected */
  bad |= try (g, 0, 1) == 0;	/* actual codes */
  rc = yaep_parse_grammar (g, 1, "TERM x y;\nS : x y '\001';\n");
  printf ("TERM x y; S : x y '^A'; -> %d (%s)\n", rc, yaep_error_message (g));
  bad |= rc != 0;
  yaep_free_grammar (g);
  return bad;
}
