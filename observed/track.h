/* Tiny tracking allocator for the parse_alloc/parse_free callbacks.  */
#include <stdio.h>
#include <stdlib.h>
#include <string.h>
#define MAXB 100000
static void *blk[MAXB];
static int blk_live[MAXB];
static int nblk, bad_free;
static void *
t_alloc (int n)
{
  void *p = malloc (n);
  memset (p, 0xAB, n);
  blk[nblk] = p;
  blk_live[nblk++] = 1;
  return p;
}
static void
t_free (void *p)
{
  int i;
  for (i = nblk - 1; i >= 0; i--)
    if (blk[i] == p && blk_live[i])
      {
	blk_live[i] = 0;		/* keep the memory: no address reuse */
	return;
      }
  bad_free++;
}
static int
t_live (void)
{
  int i, n = 0;
  for (i = 0; i < nblk; i++)
    n += blk_live[i];
  return n;
}
static int
t_is_live (void *p)
{
  int i;
  for (i = 0; i < nblk; i++)
    if (blk[i] == p)
      return blk_live[i];
  return 0;
}
