/* Finding in the UNMODIFIED library: with the cost flag set (one-parse flag
   at its default 1) and an ambiguous input, abstract nodes which are reached
   an even number of times in the pruned translation come back with a
   NEGATIVE cost field (the internal "visited" encoding -cost-1 is toggled
   back once per visit by traverse_pruned_translation).

   Build (from the root of the source tree):
     bison -o out/findings/sgramm.c src/sgramm.y
     gcc -g -fsanitize=address -Isrc -Iout/findings src/allocate.c \
         src/hashtab.c src/objstack.c src/vlobject.c src/yaep.c \
         out/findings/neg_cost.c -o out/findings/neg_cost
   Output on the unmodified sources:
     S:5(A:3(Emp:-2() Emp:-2()) B1:1())      (Emp has cost 1 in the grammar)
   The program exits 1 when it sees a negative cost.  */

#include <stdio.h>
#include <stdlib.h>
#include <string.h>
#include "yaep.h"

static const char *description =
  "TERM;\n"
  "S : A B       # S (0 1)\n"
  "  ;\n"
  "A : N N       # A (0 1)\n"
  "  ;\n"
  "N :           # Emp 1\n"
  "  ;\n"
  "B : 'b'       # B1 1\n"
  "  | 'b'       # B2 2\n"
  "  ;\n";

static const char *input;
static int pos, n_errors;

static int
read_token (void **attr)
{
  *attr = NULL;
  if (input[pos] == '\0')
    return -1;
  return input[pos++];
}

static void
syntax_error (int err_tok_num, void *err_tok_attr,
	      int start_ignored_tok_num, void *start_ignored_tok_attr,
	      int start_recovered_tok_num, void *start_recovered_tok_attr)
{
  n_errors++;
}

static char buf[2][4096];

static void
print_tree (char *out, struct yaep_tree_node *node)
{
  int i;

  if (strlen (out) > 3500)
    return;
  switch (node->type)
    {
    case YAEP_NIL:
      strcat (out, "nil");
      break;
    case YAEP_ERROR:
      strcat (out, "error");
      break;
    case YAEP_TERM:
      sprintf (out + strlen (out), "%c", node->val.term.code);
      break;
    case YAEP_ANODE:
      sprintf (out + strlen (out), "%s:%d(", node->val.anode.name,
	       node->val.anode.cost);
      for (i = 0; node->val.anode.children[i] != NULL; i++)
	{
	  if (i != 0)
	    strcat (out, " ");
	  print_tree (out, node->val.anode.children[i]);
	}
      strcat (out, ")");
      break;
    case YAEP_ALT:
      strcat (out, "ALT{");
      for (; node != NULL; node = node->val.alt.next)
	{
	  print_tree (out, node->val.alt.node);
	  strcat (out, node->val.alt.next != NULL ? " | " : "}");
	}
      break;
    default:
      strcat (out, "?");
    }
}

static struct grammar *
new_grammar (void)
{
  struct grammar *g = yaep_create_grammar ();

  if (g == NULL)
    exit (2);
  yaep_set_cost_flag (g, 1);
  yaep_set_error_recovery_flag (g, 0);
  if (yaep_parse_grammar (g, 1, description) != 0)
    exit (2);
  return g;
}

static struct yaep_tree_node *
parse (struct grammar *g, const char *text, int *rc, int *ambiguous_p)
{
  struct yaep_tree_node *root = NULL;

  input = text;
  pos = 0;
  *ambiguous_p = 0;
  *rc = yaep_parse (g, read_token, syntax_error, NULL, NULL, &root,
		    ambiguous_p);
  return root;
}

int
main (void)
{
  struct grammar *fresh, *used;
  struct yaep_tree_node *r0, *r1, *r2;
  int rc0, rc1, rc2, a0, a1, a2;

  fresh = new_grammar ();
  used = new_grammar ();

  n_errors = 0;
  r0 = parse (used, "bb", &rc0, &a0);
  if (rc0 != 0 || r0 != NULL || n_errors != 1)
    {
      fprintf (stderr, "unexpected: rc=%d root=%p errors=%d\n", rc0,
	       (void *) r0, n_errors);
      return 2;
    }
  n_errors = 0;
  r1 = parse (fresh, "b", &rc1, &a1);
  r2 = parse (used, "b", &rc2, &a2);
  if (rc1 != 0 || r1 == NULL || rc2 != 0 || r2 == NULL || n_errors != 0)
    {
      fprintf (stderr, "unexpected: rc=%d,%d\n", rc1, rc2);
      return 1;
    }
  print_tree (buf[0], r1);
  print_tree (buf[1], r2);
  yaep_free_grammar (fresh);
  yaep_free_grammar (used);
  yaep_free_tree (r1, NULL, NULL);
  yaep_free_tree (r2, NULL, NULL);
  printf ("fresh: amb=%d %s\nused:  amb=%d %s\n", a1, buf[0], a2, buf[1]);
  if (a1 != a2 || strcmp (buf[0], buf[1]) != 0)
    {
      fprintf (stderr, "FAIL: the same call gives another result after an "
	       "earlier parse of the object\n");
      return 1;
    }
  if (strstr (buf[0], ":-") != NULL)
    {
      fprintf (stderr, "negative cost in the returned tree\n");
      return 1;
    }
  printf ("ok\n");
  return 0;
}
