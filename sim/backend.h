// Uniform view of the two libraries: libyaep (C API, cshim.c) and libyaep++ (class yaep, xshim.cpp).
#pragma once
#ifdef __cplusplus
extern "C" {
#endif

struct yaep_tree_node;
struct yaep_term;

typedef const char *(*vs_read_terminal_t)(int *code);
typedef const char *(*vs_read_rule_t)(const char ***rhs, const char **abs_node, int *anode_cost, int **transl);
typedef int (*vs_read_token_t)(void **attr);
typedef void (*vs_syntax_error_t)(int, void *, int, void *, int, void *);
typedef void *(*vs_parse_alloc_t)(int);
typedef void (*vs_parse_free_t)(void *);
typedef void (*vs_termcb_t)(struct yaep_term *);

struct BackendApi {
  const char *name;
  void *(*create)(void);
  void (*destroy)(void *);
  int (*error_code)(void *);
  const char *(*error_message)(void *);
  int (*read_grammar)(void *, int strict, vs_read_terminal_t, vs_read_rule_t);
  int (*parse_grammar)(void *, int strict, const char *desc);
  int (*set)(void *, int which, int value);
  int (*parse)(void *, vs_read_token_t, vs_syntax_error_t, vs_parse_alloc_t, vs_parse_free_t,
               struct yaep_tree_node **root, int *ambiguous);
  void (*free_tree)(struct yaep_tree_node *, vs_parse_free_t, vs_termcb_t);
};

extern const struct BackendApi vs_api_c;
extern const struct BackendApi vs_api_cxx;

#ifdef __cplusplus
}
#endif
