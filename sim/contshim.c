int contshim_dummy;
