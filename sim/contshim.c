/* C side of contsim: the C container implementations are macro packages; this file wraps every
   macro in a function so that the simulator (C++) can drive them.  Compiled with the same knobs as
   the library (-DYAEP_VERIF, run-time OS_DEFAULT_SEGMENT_LENGTH / VLO_DEFAULT_LENGTH).  */
#include <stdlib.h>
#include <string.h>
#include "allocate.h"
#include "hashtab.h"
#include "objstack.h"
#include "vlobject.h"
#include "contshim.h"

/* hash table */
void *cs_ht_create (YaepAllocator *a, size_t size, unsigned (*h) (hash_table_entry_t), int (*eq) (hash_table_entry_t, hash_table_entry_t))
{ return create_hash_table (a, size, h, eq); }
void cs_ht_empty (void *t) { empty_hash_table ((hash_table_t) t); }
void cs_ht_delete (void *t) { delete_hash_table ((hash_table_t) t); }
const void **cs_ht_find (void *t, const void *el, int reserve) { return (const void **) find_hash_table_entry ((hash_table_t) t, el, reserve); }
void cs_ht_remove (void *t, const void *el) { remove_element_from_hash_table_entry ((hash_table_t) t, el); }
size_t cs_ht_size (void *t) { return hash_table_size ((hash_table_t) t); }
size_t cs_ht_count (void *t) { return hash_table_elements_number ((hash_table_t) t); }

/* object stack: the descriptor lives in caller memory */
size_t cs_os_sizeof (void) { return sizeof (os_t); }
void cs_os_create (void *o, YaepAllocator *a, size_t len) { OS_CREATE (*(os_t *) o, a, len); }
void cs_os_delete (void *o) { OS_DELETE (*(os_t *) o); }
void cs_os_empty (void *o) { OS_EMPTY (*(os_t *) o); }
void cs_os_nullify (void *o) { OS_TOP_NULLIFY (*(os_t *) o); }
void cs_os_finish (void *o) { OS_TOP_FINISH (*(os_t *) o); }
size_t cs_os_length (void *o) { return OS_TOP_LENGTH (*(os_t *) o); }
void *cs_os_begin (void *o) { return OS_TOP_BEGIN (*(os_t *) o); }
void cs_os_shorten (void *o, size_t n) { OS_TOP_SHORTEN (*(os_t *) o, n); }
void cs_os_expand (void *o, size_t n) { OS_TOP_EXPAND (*(os_t *) o, n); }
void cs_os_add_byte (void *o, int b) { OS_TOP_ADD_BYTE (*(os_t *) o, b); }
void cs_os_add_memory (void *o, const void *p, size_t n) { OS_TOP_ADD_MEMORY (*(os_t *) o, p, n); }
void cs_os_add_string (void *o, const char *s) { OS_TOP_ADD_STRING (*(os_t *) o, s); }

/* variable length object */
size_t cs_vlo_sizeof (void) { return sizeof (vlo_t); }
void cs_vlo_create (void *v, YaepAllocator *a, size_t len) { VLO_CREATE (*(vlo_t *) v, a, len); }
void cs_vlo_delete (void *v) { VLO_DELETE (*(vlo_t *) v); }
void cs_vlo_nullify (void *v) { VLO_NULLIFY (*(vlo_t *) v); }
void cs_vlo_tailor (void *v) { VLO_TAILOR (*(vlo_t *) v); }
size_t cs_vlo_length (void *v) { return VLO_LENGTH (*(vlo_t *) v); }
void *cs_vlo_begin (void *v) { return VLO_BEGIN (*(vlo_t *) v); }
void cs_vlo_shorten (void *v, size_t n) { VLO_SHORTEN (*(vlo_t *) v, n); }
void cs_vlo_expand (void *v, size_t n) { VLO_EXPAND (*(vlo_t *) v, n); }
void cs_vlo_add_byte (void *v, int b) { VLO_ADD_BYTE (*(vlo_t *) v, b); }
void cs_vlo_add_memory (void *v, const void *p, size_t n) { VLO_ADD_MEMORY (*(vlo_t *) v, p, n); }
void cs_vlo_add_string (void *v, const char *s) { VLO_ADD_STRING (*(vlo_t *) v, s); }
