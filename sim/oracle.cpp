// Fresh-twin oracle: a server forked from the worker before the worker's first yaep call;
// it forks one grandchild per query, so every twin runs in a process in which no yaep
// function has ever executed (DESIGN.md §3.8-2).
#include "exec.h"
#include <cerrno>
#include <csignal>
#include <cstdlib>
#include <cstring>
#include <fcntl.h>
#include <sys/time.h>
#include <sys/wait.h>
#include <unistd.h>
#include <unordered_map>

namespace sim {
namespace {

int g_to = -1, g_from = -1; // worker side
pid_t g_server = -1;
long g_queries = 0, g_hits = 0;
std::unordered_map<std::string, std::string> *g_memo;

bool write_all(int fd, const void *p, size_t n) {
  const char *c = (const char *)p;
  while (n) {
    ssize_t w = write(fd, c, n);
    if (w < 0) { if (errno == EINTR) continue; return false; }
    c += w; n -= (size_t)w;
  }
  return true;
}
bool read_all(int fd, void *p, size_t n) {
  char *c = (char *)p;
  while (n) {
    ssize_t r = read(fd, c, n);
    if (r < 0) { if (errno == EINTR) continue; return false; }
    if (r == 0) return false;
    c += r; n -= (size_t)r;
  }
  return true;
}
bool send_msg(int fd, const std::string &s) {
  uint32_t n = (uint32_t)s.size();
  return write_all(fd, &n, 4) && write_all(fd, s.data(), n);
}
bool recv_msg(int fd, std::string *s) {
  uint32_t n;
  if (!read_all(fd, &n, 4)) return false;
  s->resize(n);
  return n == 0 || read_all(fd, &(*s)[0], n);
}

std::string run_twin(const std::string &text) {
  Plan p;
  std::string err;
  if (!plan_from_text(text, &p, &err)) return "TWINVIOL bad-plan " + err;
  ExecOptions o;
  o.raw = true;
  o.use_twin = false;
  RunResult r = execute_plan(p, o);
  for (auto &s : r.log)
    if (s.compare(0, 8, "TWINVIOL") == 0) return s;
  return r.outcomes.empty() ? "TWINVIOL no-outcome" : r.outcomes.back();
}

void server_loop(int in, int out) {
  signal(SIGPIPE, SIG_IGN);
  std::string q;
  while (recv_msg(in, &q)) {
    int pfd[2];
    if (pipe(pfd) != 0) _exit(72);
    pid_t c = fork();
    if (c == 0) {
      close(pfd[0]);
      int dn = open("/dev/null", O_WRONLY);
      if (dn >= 0) { dup2(dn, 2); dup2(dn, 1); }
      struct itimerval it;
      memset(&it, 0, sizeof it);
      it.it_value.tv_sec = 60; // a twin that does not terminate is reported as a crashed twin
      setitimer(ITIMER_VIRTUAL, &it, nullptr);
      std::string ans = run_twin(q);
      send_msg(pfd[1], ans);
      _exit(0);
    }
    close(pfd[1]);
    std::string ans;
    bool got = recv_msg(pfd[0], &ans);
    close(pfd[0]);
    int st = 0;
    waitpid(c, &st, 0);
    if (!got) {
      char b[64];
      snprintf(b, sizeof b, "CRASH status=%d", WIFEXITED(st) ? WEXITSTATUS(st) : 1000 + WTERMSIG(st));
      ans = b;
    }
    if (!send_msg(out, ans)) break;
  }
  _exit(0);
}

} // namespace

void oracle_start() {
  if (g_server > 0) return;
  int a[2], b[2];
  if (pipe(a) != 0 || pipe(b) != 0) { perror("pipe"); exit(2); }
  fflush(stdout);
  fflush(stderr);
  pid_t p = fork();
  if (p < 0) { perror("fork"); exit(2); }
  if (p == 0) {
    close(a[1]); close(b[0]);
    // The twins may be computed by another build flavour of the same sources (VSIM_ORACLE_EXE, normally the
    // plain -O2 binary): forking an ASan process per query is an order of magnitude more expensive.
    const char *exe = getenv("VSIM_ORACLE_EXE");
    if (exe && *exe) {
      dup2(a[0], 0);
      dup2(b[1], 1);
      execl(exe, exe, "--oracle-server", (char *)nullptr);
      _exit(73);
    }
    server_loop(a[0], b[1]);
  }
  close(a[0]); close(b[1]);
  g_to = a[1]; g_from = b[0];
  g_server = p;
  g_memo = new std::unordered_map<std::string, std::string>();
  signal(SIGPIPE, SIG_IGN);
}

void oracle_serve_stdio() { server_loop(0, 1); }

void oracle_stop() {
  if (g_server <= 0) return;
  close(g_to); close(g_from);
  int st;
  waitpid(g_server, &st, 0);
  g_server = -1;
}

std::string oracle_query(const std::string &text, bool *hit) {
  g_queries++;
  if (g_server <= 0) { *hit = false; return "CRASH no-oracle"; }
  auto it = g_memo->find(text);
  if (it != g_memo->end()) { *hit = true; g_hits++; return it->second; }
  *hit = false;
  std::string ans;
  if (!send_msg(g_to, text) || !recv_msg(g_from, &ans)) ans = "CRASH oracle-server-lost";
  if (g_memo->size() > 200000) g_memo->clear();
  (*g_memo)[text] = ans;
  return ans;
}

void oracle_stats(long *q, long *h) { *q = g_queries; *h = g_hits; }

} // namespace sim
