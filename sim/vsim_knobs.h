/* Force-included for every library translation unit built for the simulator:
   declarations of the run-time knobs used through -DOS_DEFAULT_SEGMENT_LENGTH=... etc.  */
#ifndef VSIM_KNOBS_H
#define VSIM_KNOBS_H
#include <stddef.h>
#ifdef __cplusplus
extern "C" {
#endif
size_t yaep_verif_os_default (void);
size_t yaep_verif_vlo_default (void);
#ifdef __cplusplus
}
#endif
#endif
