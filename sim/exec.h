// Plan executor: runs a plan on one or both libraries under the simulated environment,
// checks invariants while the run proceeds and over the recorded history afterwards.
#pragma once
#include "plan.h"
#include <map>
#include <set>
#include <string>
#include <vector>

namespace sim {

struct Violation {
  std::string prop;   // C09 C13 C14 C15 C16 C17
  std::string kind;   // violated check
  std::string site;   // where (check name or function); part of the violation class
  std::string detail; // free text (not part of the class)
  int op = -1;
  int backend = 0;
  bool probe = false; // non-gating probe result
  std::string cls() const { return prop + "/" + kind + "/" + site; }
};

struct RunStats {
  long ops = 0, ops_skipped = 0, alloc_events = 0, callbacks = 0;
  long parses = 0, parses_ok = 0, defines = 0, defines_ok = 0, trees = 0;
  long twin_queries = 0, twin_hits = 0, undecided_large = 0, denot_compared = 0;
  std::map<std::string, long> probes;   // reach probes -> hit counts
  std::map<std::string, long> faults;   // fault kinds that actually fired
  std::set<uint64_t> triples;           // distinct (state, op, outcome) abstractions
  std::set<uint64_t> adjacencies;       // distinct cross-object op adjacencies
  uint64_t shape_hash = 0;              // hash of the abstract history (distinct interleavings measure)
  void merge(const RunStats &o);
};

struct RunResult {
  uint64_t log_hash = 0;
  std::vector<std::string> log;         // kept only when requested
  std::vector<Violation> violations;
  RunStats stats;
  std::vector<std::string> outcomes;    // raw mode: canonical outcome per op
  std::map<int, long> requests_c, requests_x; // fault-free request counts per op (for alloc@f resolution / enumeration)
  Plan resolved;                        // plan with fractions resolved to absolute k
};

struct ExecOptions {
  bool raw = false;          // oracle child: no comparisons, outcomes only
  bool use_twin = true;      // compare DEFINE/PARSE with the fresh twin in a pristine process
  bool keep_log = false;
  bool announce_ops = false; // print "OPBEGIN ..." on fd `announce_fd` before each op (replay classification)
  int announce_fd = -1;
};

RunResult execute_plan(const Plan &plan, const ExecOptions &opt);

// Fresh-twin oracle (oracle.cpp)
void oracle_start();                       // must be called before the first yaep call of the process
void oracle_stop();
void oracle_serve_stdio();                // --oracle-server: serve queries on stdin/stdout
std::string oracle_query(const std::string &miniplan_text, bool *hit);
void oracle_stats(long *queries, long *hits);

// canonical DAGs
struct CanonNode {
  char type = 'N';               // N nil, E error, T term, A anode, L alternatives
  std::string name;              // A
  int cost = 0;                  // A
  int code = 0, attr = -1;       // T
  std::vector<int> kids;         // A: children, L: alternatives
};
struct CanonDag { std::vector<CanonNode> nodes; };
std::string canon_to_text(const CanonDag &d);
bool canon_from_text(const std::string &s, CanonDag *d);
// set of denoted trees; returns false if the cap was exceeded
bool canon_denotations(const CanonDag &d, std::vector<std::string> *out, size_t cap_trees, size_t cap_work);

} // namespace sim
