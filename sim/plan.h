// Plan = replay file: configuration, inline grammars and inputs, ordered operations
// with their fault attachments.  Execution of a plan consumes no randomness.
#pragma once
#include "simheap.h"
#include <cstdint>
#include <map>
#include <string>
#include <vector>

namespace sim {

struct Rng { // xoshiro256** seeded by splitmix64
  uint64_t s[4];
  explicit Rng(uint64_t seed);
  uint64_t next();
  uint64_t below(uint64_t n) { return n ? next() % n : 0; }
  int range(int lo, int hi) { return lo + (int)below((uint64_t)(hi - lo + 1)); }
  bool chance(int num, int den) { return (int)below((uint64_t)den) < num; }
  template <class T> const T &pick(const std::vector<T> &v) { return v[below(v.size())]; }
};

struct TermDef { std::string name; int code; };
struct RuleDef {
  std::string lhs;
  std::vector<std::string> rhs;
  bool has_anode = false;
  std::string anode;
  int cost = 0;
  bool has_transl = false;       // transl pointer non-NULL
  std::vector<int> transl;       // indexes; -2 stands for YAEP_NIL_TRANSLATION_NUMBER
};

struct GrammarSpec {
  bool text = false;             // false: yaep_read_grammar route, true: yaep_parse_grammar route
  int strict = 1;
  std::vector<TermDef> terms;    // route read
  std::vector<RuleDef> rules;    // route read
  std::string desc;              // route text
  std::vector<int> codes;        // declared terminal codes if the definition succeeds
  int expect = -1;               // expected return code of the definition if known (annotated pool entries), -1 unknown
  std::string tag;               // human-readable origin (e.g. "suite-E", "gen")
};

enum OpKind { OP_CREATE, OP_SET, OP_DEFINE, OP_PARSE, OP_ERRQ, OP_WALK, OP_FREE_TREE, OP_FREE_GRAMMAR, OP_CONFIG };
enum Setter { S_LOOKAHEAD, S_DEBUG, S_ONE_PARSE, S_COST, S_RECOVERY, S_MATCH };
enum AllocMode { AM_CUSTOM_FREE, AM_CUSTOM_NOFREE, AM_DEFAULT, AM_NULL_FREE };

struct Fault {
  enum Type { NONE, ALLOC, ALLOC_FRAC, ALLOC_STICKY, TREEALLOC, NEWFAIL, BADTOK, EOF_AT } type = NONE;
  long k = 0;       // ALLOC/TREEALLOC/NEWFAIL: request number (1-based); BADTOK/EOF_AT: token position
  long kx = 0;      // ALLOC: request number for the C++ backend (0 = same as k)
  int frac = 0;     // ALLOC_FRAC: per-mille of the op's own fault-free request count
  int code = 0;     // BADTOK: substituted code
};

struct Op {
  int task = 0;
  OpKind kind = OP_CREATE;
  int obj = 0;        // object reference, modulo the live objects of the task
  int tree = 0;       // tree reference, modulo the live trees of the task
  Setter setter = S_LOOKAHEAD;
  int value = 0;
  int grammar = 0;    // index into Plan::grammars
  int input = 0;      // index into Plan::inputs
  AllocMode alloc = AM_CUSTOM_FREE;
  Fault fault;
  // OP_CONFIG: the simulator flips its internal choices in mid-run
  int c_knobs = 0, c_cache_skip = 0, c_selfcheck = 0, c_realloc = 0, c_sink = 0;
};

struct Plan {
  uint64_t seed = 0;
  std::string mode = "hist";
  int focus = 0;
  HeapConfig cfg;
  int backends = 3;          // bit 1: C, bit 2: C++
  int probe_reuse = 0;       // non-gating: keep using objects struck by an allocation failure
  int early_free = 0;        // non-gating: free trees before their grammar
  std::vector<GrammarSpec> grammars;
  std::vector<std::vector<int>> inputs;
  std::vector<Op> ops;
};

std::string plan_to_text(const Plan &p);
bool plan_from_text(const std::string &text, Plan *out, std::string *err);
std::string op_to_text(const Op &op);
std::string grammar_to_desc(const GrammarSpec &g); // renders a read-route grammar as description text
uint64_t fnv1a(const std::string &s, uint64_t h = 1469598103934665603ull);
std::string esc(const std::string &s);
std::string unesc(const std::string &s);

// ---- generator (gen.cpp)
struct Pool {
  std::vector<GrammarSpec> good;        // definitions expected to succeed
  std::vector<GrammarSpec> bad;         // defective definitions (one per documented error class, both routes)
  std::vector<std::vector<std::vector<int>>> inputs; // per good grammar: sentences and non-sentences
};
Pool make_pool(uint64_t pool_seed);
Plan gen_hist_plan(uint64_t seed, bool oom, int focus = 0);
const Pool &pool_for_seed(uint64_t seed);
GrammarSpec gen_grammar(Rng &r);
GrammarSpec gen_family_grammar(Rng &r);
std::vector<int> gen_sentence(Rng &r, const GrammarSpec &g, int max_len);
const std::vector<GrammarSpec> &handwritten_good();
const std::vector<GrammarSpec> &handwritten_bad();

} // namespace sim
