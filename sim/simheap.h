// Simulated heap ("disk") under the yaep library, and process-level seams
// (exit, debug sink, knobs, cooperative fault points).  See DESIGN.md §3.5-3.7.
#pragma once
#include <cstddef>
#include <cstdint>
#include <cstdio>
#include <string>
#include <vector>

namespace sim {

enum Kind : uint8_t { K_INTERNAL = 0, K_TREE = 1, K_NEW = 2 };
enum Backend : uint8_t { B_C = 0, B_CXX = 1, B_NONE = 2 };

struct HeapConfig {
  int knobs = 0;            // knob preset index, 0 = shipped sizes
  uint8_t poison = 0xAB;    // fill byte of fresh blocks
  uint8_t free_poison = 0xDD;
  int pad = 0;              // front padding in 16-byte units (placement)
  int quarantine = 0;       // plain-flavour quarantine length (blocks)
  int realloc_mode = 0;     // 0 move always, 1 in place when it fits, 2 mixed
  int cache_skip = 0;       // veto probability /256 for valid goto-cache hits
  int selfcheck = 0;        // recompute every accepted goto-cache hit
  int sink = 0;             // 0 swallow, 1 EIO from n-th write, 2 short writes
  uint64_t salt = 0;        // decides mixed realloc / cache veto by counter hash
};

struct KnobPreset {
  const char *name;
  size_t hash_cap;      // 0 = no cap
  size_t os_cap;        // cap of explicit initial segment length, 0 = none
  size_t os_default;    // OS_DEFAULT_SEGMENT_LENGTH (minimum/default)
  size_t vlo_cap;       // cap of explicit initial VLO length
  size_t vlo_default;   // VLO_DEFAULT_LENGTH
  int code_vect_size;   // SYMB_CODE_TRANS_VECT_SIZE
};
extern const KnobPreset kKnobs[];
extern const int kNumKnobs;

// Fault attached to the operation in flight.
struct OpFault {
  long alloc_k = 0;        // k-th allocate.c-routed request returns NULL (0 = none)
  bool alloc_sticky = false; // keep failing until the op returns (probe)
  long tree_k = 0;         // k-th default tree allocator request returns NULL
  long new_k = 0;          // k-th in-library operator new throws bad_alloc (probe)
};

struct OpCounters {
  long requests = 0;       // allocate.c-routed requests (malloc+calloc+realloc)
  long tree_requests = 0;
  long new_requests = 0;
  long frees = 0;
  long bytes = 0;
  long realloc_moves = 0;
  bool fault_fired = false;
  bool tree_fault_fired = false;
  bool new_fault_fired = false;
  long cache_hits = 0, cache_vetoes = 0, cache_checked = 0;
  long hash_creates = 0, hash_expands = 0, os_creates = 0, vlo_creates = 0;
  long sink_writes = 0, sink_errors = 0;
};

struct Totals {
  long allocs = 0, frees = 0, realloc_moves = 0, faults_alloc = 0, faults_tree = 0,
       faults_new = 0, cache_hits = 0, cache_vetoes = 0, cache_checked = 0,
       hash_expands = 0, sink_errors = 0, steps = 0;
};

// A violation noticed by the simulator itself (independent of sanitizers).
struct HeapViolation {
  std::string kind;   // e.g. double_free, foreign_free, kind_mismatch, write_after_free, exit
  std::string detail;
};

void heap_reset_run(const HeapConfig &cfg);  // start of a run: new config, registries must be empty
void heap_set_knobs(int knobs, int cache_skip, int selfcheck, int realloc_mode, int sink); // OP_CONFIG
void heap_begin_op(Backend b, int op_index, const OpFault &f);
OpCounters heap_end_op();
const OpCounters &heap_cur();
Totals &heap_totals();
bool heap_take_violation(HeapViolation *out); // pops the first pending violation
size_t heap_live_internal(Backend b, bool include_excused); // INTERNAL+NEW blocks of backend
size_t heap_live_tree(Backend b);
void heap_excuse_op_blocks(Backend b, int op_index); // blocks allocated in a faulted op may leak
void heap_drop_tree_of_op(Backend b, int op_index); // the caller gives up the default-allocator blocks of a parse
void heap_forget_all();     // drop registries (end of run; blocks are really freed)
std::string heap_describe_live(Backend b, int max);
// K_TREE registry queries for the tree walker (default tree allocator).
bool heap_tree_block(const void *p, size_t *size);
// Number of live K_TREE blocks allocated during op (default allocator conservation).
size_t heap_tree_live_of_op(Backend b, int op_index);

// in-library flag (decides whether operator new belongs to the library)
extern int g_in_lib;
extern Backend g_backend;
struct LibEnter { int saved; LibEnter(); ~LibEnter(); };   // harness -> library
struct LibExit { int saved; LibExit(); ~LibExit(); };     // library -> callback

// exit() seam
void set_exit_jump(void *jmpbuf_or_null);
extern int g_exit_code;

// step budget (hang guard)
extern long g_steps, g_step_budget, g_byte_budget;
void step();

// goto-cache self-check result
extern int g_cache_mismatch_tok, g_cache_mismatch_kind; // tok = -1 if none

// hook H6: parser list / token list lengths of the parse in flight (-1 if make_parse was not reached)
extern int g_pl_last, g_pl_toks, g_announce_fd;

// debug sink
void sink_open();
std::string sink_take();   // captured text digest is not kept; returns "" (bytes counted only)
extern long g_sink_bytes;

} // namespace sim
