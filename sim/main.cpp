// yaepsim: deterministic simulator of API histories over libyaep and libyaep++.
#include "exec.h"
#include <cerrno>
#include <csignal>
#include <cstdio>
#include <cstdlib>
#include <cstring>
#include <ctime>
#include <fcntl.h>
#include <fstream>
#include <functional>
#include <sstream>
#include <sys/time.h>
#include <sys/wait.h>
#include <unistd.h>

using namespace sim;

namespace sim {
Plan gen_perturb_plan(uint64_t seed);                 // perturb.cpp
Plan gen_ansic_plan(uint64_t seed);                   // perturb.cpp
Plan gen_ansic_hist_plan(uint64_t seed);              // perturb.cpp
int perturb_main(int argc, char **argv);              // perturb.cpp
int oomenum_main(int argc, char **argv);              // oomenum.cpp
}

extern "C" __attribute__((used)) const char *__asan_default_options() {
  return "exitcode=77:detect_leaks=0:abort_on_error=0:allocator_may_return_null=1:detect_stack_use_after_return=0";
}
extern "C" __attribute__((used)) const char *__ubsan_default_options() { return "print_stacktrace=1:halt_on_error=1:exitcode=78"; }

// Hang guard of last resort: user CPU time per run (SIGVTALRM terminates the process; the driver then classifies
// the seed as any other worker death).  CPU time, not wall time, so that a loaded machine does not matter.
static void arm_cpu_guard(int seconds) {
  struct itimerval it;
  memset(&it, 0, sizeof it);
  it.it_value.tv_sec = seconds;
  setitimer(ITIMER_VIRTUAL, &it, nullptr);
}

static std::string read_file(const std::string &path) {
  std::ifstream f(path);
  std::stringstream ss;
  ss << f.rdbuf();
  return ss.str();
}

static std::string jesc(const std::string &s) {
  std::string o;
  for (unsigned char c : s) {
    if (c == '"' || c == '\\') { o += '\\'; o += (char)c; }
    else if (c < 32) { char b[8]; snprintf(b, sizeof b, "\\u%04x", c); o += b; }
    else o += (char)c;
  }
  return o;
}

static void print_violation(uint64_t seed, const Violation &v) {
  printf("V seed=%llu prop=%s kind=%s site=%s probe=%d op=%d be=%d detail=%s\n", (unsigned long long)seed, v.prop.c_str(),
         v.kind.c_str(), esc(v.site).c_str(), v.probe ? 1 : 0, v.op, v.backend, esc(v.detail).c_str());
}

static void print_stats(const RunStats &s, long runs, long plain_ok) {
  printf("STATS {\"runs\":%ld,\"clean\":%ld,\"ops\":%ld,\"ops_skipped\":%ld,\"alloc_events\":%ld,\"callbacks\":%ld,"
         "\"parses\":%ld,\"parses_ok\":%ld,\"defines\":%ld,\"defines_ok\":%ld,\"trees\":%ld,\"twin_queries\":%ld,"
         "\"twin_hits\":%ld,\"undecided_large\":%ld,\"denot_compared\":%ld,",
         runs, plain_ok, s.ops, s.ops_skipped, s.alloc_events, s.callbacks, s.parses, s.parses_ok, s.defines, s.defines_ok,
         s.trees, s.twin_queries, s.twin_hits, s.undecided_large, s.denot_compared);
  printf("\"probes\":{");
  bool first = true;
  for (auto &kv : s.probes) { printf("%s\"%s\":%ld", first ? "" : ",", jesc(kv.first).c_str(), kv.second); first = false; }
  printf("},\"faults\":{");
  first = true;
  for (auto &kv : s.faults) { printf("%s\"%s\":%ld", first ? "" : ",", jesc(kv.first).c_str(), kv.second); first = false; }
  printf("},\"triples\":[");
  first = true;
  for (auto t : s.triples) { printf("%s%llu", first ? "" : ",", (unsigned long long)(t & 0xFFFFFFFFFFFFull)); first = false; }
  printf("],\"adjacencies\":[");
  first = true;
  for (auto t : s.adjacencies) { printf("%s%llu", first ? "" : ",", (unsigned long long)(t & 0xFFFFFFFFFFFFull)); first = false; }
  const Totals &t = heap_totals();
  printf("],\"heap\":{\"allocs\":%ld,\"frees\":%ld,\"realloc_moves\":%ld,\"faults_alloc\":%ld,\"faults_tree\":%ld,\"faults_new\":%ld,"
         "\"cache_hits\":%ld,\"cache_vetoes\":%ld,\"cache_checked\":%ld,\"hash_expands\":%ld,\"sink_errors\":%ld,\"steps\":%ld}}\n",
         t.allocs, t.frees, t.realloc_moves, t.faults_alloc, t.faults_tree, t.faults_new, t.cache_hits, t.cache_vetoes,
         t.cache_checked, t.hash_expands, t.sink_errors, t.steps);
}

static int g_focus = 0;
static Plan make_plan(const std::string &mode, uint64_t seed) {
  if (mode == "oom") return gen_hist_plan(seed, true, g_focus);
  if (mode == "perturb") return gen_perturb_plan(seed);
  if (mode == "ansic") return gen_ansic_plan(seed);
  if (mode == "ansichist") return gen_ansic_hist_plan(seed);
  return gen_hist_plan(seed, false, g_focus);
}

// ---------------------------------------------------------------- worker
static int worker(const std::string &mode, uint64_t from, uint64_t to, const std::string &plandir, bool shapes) {
  oracle_start();
  RunStats total;
  long runs = 0, clean = 0;
  for (uint64_t seed = from; seed < to; seed++) {
    printf("RUN %llu\n", (unsigned long long)seed);
    fflush(stdout);
    arm_cpu_guard(mode == "ansic" ? 900 : mode == "ansichist" ? 240 : 60);
    Plan p = make_plan(mode, seed);
    ExecOptions o;
    o.use_twin = (mode != "perturb" && mode != "ansic");
    RunResult r = execute_plan(p, o);
    runs++;
    total.merge(r.stats);
    size_t gating = 0;
    for (auto &v : r.violations) if (!v.probe) gating++;
    if (r.violations.empty()) { printf("OK %llu %016llx\n", (unsigned long long)seed, (unsigned long long)r.log_hash); clean++; }
    else {
      printf("VIOL %llu %016llx gating=%zu\n", (unsigned long long)seed, (unsigned long long)r.log_hash, gating);
      for (auto &v : r.violations) print_violation(seed, v);
      if (gating && !plandir.empty()) {
        std::string path = plandir + "/cand-" + mode + "-" + std::to_string(seed) + ".plan";
        std::ofstream f(path);
        f << plan_to_text(r.resolved);
        printf("PLAN %llu %s\n", (unsigned long long)seed, path.c_str());
      }
    }
    if (shapes) printf("SHAPE %llu %016llx ops=%zu sample=%s\n", (unsigned long long)seed, (unsigned long long)r.stats.shape_hash, p.ops.size(),
                       runs <= 2 ? esc(plan_to_text(p).substr(0, 1500)).c_str() : "-");
    fflush(stdout);
    if (r.stats.probes.count("run_aborted")) {
      // the library was left through exit()/an exception: its file-scope state is undefined now
      printf("RECYCLE %llu\n", (unsigned long long)seed);
      break;
    }
  }
  long q, h;
  oracle_stats(&q, &h);
  print_stats(total, runs, clean);
  fflush(stdout);
  oracle_stop();
  return 0;
}

// ---------------------------------------------------------------- replay / classify
static int replay(const std::string &path, bool keep_log, bool announce) {
  Plan p;
  std::string err;
  if (!plan_from_text(read_file(path), &p, &err)) { fprintf(stderr, "bad plan: %s\n", err.c_str()); return 2; }
  if (p.mode != "perturb" && p.mode != "ansic") oracle_start();
  arm_cpu_guard(p.mode == "ansic" ? 900 : p.mode == "ansichist" ? 240 : 60);
  ExecOptions o;
  o.use_twin = (p.mode != "perturb" && p.mode != "ansic");
  o.keep_log = keep_log;
  o.announce_ops = announce;
  o.announce_fd = 2;
  RunResult r = execute_plan(p, o);
  if (keep_log) for (auto &l : r.log) printf("LOG %s\n", l.c_str());
  printf("HASH %016llx\n", (unsigned long long)r.log_hash);
  size_t gating = 0;
  for (auto &v : r.violations) { print_violation(p.seed, v); if (!v.probe) gating++; }
  fflush(stdout);
  oracle_stop();
  return gating ? 1 : 0;
}

struct ClassResult {
  std::vector<std::string> classes; // gating classes
  std::vector<std::string> details;
  std::string hash;
  bool crashed = false;
};

static const char *kRepoFiles[] = {"yaep.c", "yaep.cpp", "sgramm.y", "sgramm.c", "hashtab.c", "hashtab.cpp", "hashtab.h",
                                   "objstack.c", "objstack.cpp", "objstack.h", "vlobject.c", "vlobject.cpp", "vlobject.h",
                                   "allocate.c"};

static ClassResult classify_text(const std::string &plan_text, const std::string &selfexe) {
  ClassResult cr;
  char tmpl[] = "/tmp/yaepsim-XXXXXX";
  int tfd = mkstemp(tmpl);
  if (tfd < 0) { perror("mkstemp"); exit(2); }
  if (write(tfd, plan_text.data(), plan_text.size()) < 0) {}
  close(tfd);
  int po[2], pe[2];
  if (pipe(po) || pipe(pe)) { perror("pipe"); exit(2); }
  fflush(stdout);
  pid_t c = fork();
  if (c == 0) {
    dup2(po[1], 1); dup2(pe[1], 2);
    close(po[0]); close(pe[0]);
    execl(selfexe.c_str(), selfexe.c_str(), "--replay", tmpl, "--announce", (char *)nullptr);
    _exit(99);
  }
  close(po[1]); close(pe[1]);
  std::string out, errtxt;
  // drain both pipes
  int fds[2] = {po[0], pe[0]};
  std::string *bufs[2] = {&out, &errtxt};
  bool open_[2] = {true, true};
  while (open_[0] || open_[1]) {
    fd_set rs;
    FD_ZERO(&rs);
    int mx = 0;
    for (int i = 0; i < 2; i++) if (open_[i]) { FD_SET(fds[i], &rs); if (fds[i] > mx) mx = fds[i]; }
    if (select(mx + 1, &rs, nullptr, nullptr, nullptr) < 0) { if (errno == EINTR) continue; break; }
    for (int i = 0; i < 2; i++)
      if (open_[i] && FD_ISSET(fds[i], &rs)) {
        char b[65536];
        ssize_t n = read(fds[i], b, sizeof b);
        if (n <= 0) { open_[i] = false; close(fds[i]); }
        else if (bufs[i]->size() < (64u << 20)) bufs[i]->append(b, (size_t)n);
      }
  }
  int st = 0;
  waitpid(c, &st, 0);
  unlink(tmpl);
  bool normal = WIFEXITED(st) && (WEXITSTATUS(st) == 0 || WEXITSTATUS(st) == 1);
  if (normal) {
    std::istringstream is(out);
    std::string line;
    while (std::getline(is, line)) {
      if (line.compare(0, 5, "HASH ") == 0) cr.hash = line.substr(5);
      if (line.compare(0, 2, "V ") == 0 && line.find(" probe=0 ") != std::string::npos) {
        std::string prop, kind, site;
        std::istringstream ls(line);
        std::string w;
        while (ls >> w) {
          if (w.compare(0, 5, "prop=") == 0) prop = w.substr(5);
          if (w.compare(0, 5, "kind=") == 0) kind = w.substr(5);
          if (w.compare(0, 5, "site=") == 0) site = unesc(w.substr(5));
        }
        cr.classes.push_back(prop + "/" + kind + "/" + site);
        cr.details.push_back(line);
      }
    }
    return cr;
  }
  // crash: classify from the sanitizer / libc text and the operation in flight
  cr.crashed = true;
  if (plan_text.find(" early_free=1") != std::string::npos) {
    cr.hash = "crash-in-probe-run";  // non-gating probe run (DESIGN.md §5): reported, not judged
    return cr;
  }
  std::istringstream is(errtxt);
  std::string line, opkind = "?", kind, site;
  int be = 0, fault = 0;
  bool any_fault = false, got_error = false;
  std::string first_detail;
  bool pl_longer = false, tree_block = false, badtok = false;
  while (std::getline(is, line)) {
    if (line.compare(0, 7, "SYNERR ") == 0) continue;
    if (line.compare(0, 6, "PLLEN ") == 0 && !got_error) {
      int a, b;
      if (sscanf(line.c_str(), "PLLEN %d %d", &a, &b) == 2) pl_longer = a >= b;
      continue;
    }
    if (line.compare(0, 8, "OPBEGIN ") == 0 && !got_error) {
      pl_longer = false;
      char k[32];
      int idx;
      if (sscanf(line.c_str(), "OPBEGIN %d %31s be=%d fault=%d", &idx, k, &be, &fault) == 4) {
        opkind = k;
        badtok = fault == (int)Fault::BADTOK;
        if (fault >= 1 && fault <= 5) any_fault = true;
      }
      if (idx == 0) any_fault = (fault >= 1 && fault <= 5);
      continue;
    }
    size_t p;
    // the block the sanitizer complains about is a block of the caller's tree (parse_alloc or the default tree allocator)
    if (got_error && (line.find(" in cb_parse_alloc") != std::string::npos || line.find(" in cb_parse_free") != std::string::npos ||
                      line.find(" in vsim_tree_malloc") != std::string::npos || line.find(" in vsim_tree_free") != std::string::npos))
      tree_block = true;
    if (!got_error && (p = line.find("ERROR: AddressSanitizer: ")) != std::string::npos) {
      got_error = true;
      std::string rest = line.substr(p + 25);
      kind = "asan-" + rest.substr(0, rest.find(' '));
      first_detail = line;
    } else if (!got_error && (p = line.find("runtime error: ")) != std::string::npos) {
      got_error = true;
      kind = "ubsan";
      first_detail = line;
      // file:line: runtime error
      size_t c1 = line.find(':');
      std::string file = line.substr(0, c1);
      size_t sl = file.rfind('/');
      if (sl != std::string::npos) file = file.substr(sl + 1);
      site = file;
    } else if (!got_error && line.find("Assertion `") != std::string::npos) {
      got_error = true;
      kind = "assertion";
      first_detail = line;
      // prog: file:line: func: Assertion
      size_t a = line.find(": Assertion");
      std::string head = line.substr(0, a);
      size_t c2 = head.rfind(": ");
      if (c2 != std::string::npos) site = head.substr(c2 + 2);
    } else if (got_error && (site.empty() || (kind == "ubsan" && site.find('.') != std::string::npos))) {
      size_t in = line.find(" in ");
      if (line.find("    #") != std::string::npos && in != std::string::npos) {
        std::string rest = line.substr(in + 4);
        size_t sp = rest.find(' ');
        std::string fn = rest.substr(0, sp);
        std::string loc = sp == std::string::npos ? "" : rest.substr(sp + 1);
        for (const char *f : kRepoFiles) {
          std::string needle = std::string("/") + f + ":";
          if (loc.find(needle) != std::string::npos) { site = fn; break; }
        }
      }
    }
  }
  if (kind.empty()) {
    char b[64];
    if (WIFSIGNALED(st)) snprintf(b, sizeof b, "signal-%d", WTERMSIG(st));
    else snprintf(b, sizeof b, "exit-%d", WEXITSTATUS(st));
    kind = b;
  }
  if (site.empty()) site = opkind;
  if (opkind == "PARSE" && pl_longer) site += "(parser-list-index-past-tokens)";
  std::string prop = "C14";
  if (any_fault) prop = "C17";
  else if (opkind == "FREE_TREE" || opkind == "WALK" || (tree_block && !pl_longer)) prop = "C13";
  else if (opkind == "PARSE" && badtok) prop = "C15"; // the input held an undeclared code: the call had to end in read_toks
  else if (be == 1) prop = "C16";
  cr.classes.push_back(prop + "/" + kind + "/" + site);
  cr.details.push_back("crash during " + opkind + " be=" + std::to_string(be) + ": " + first_detail);
  cr.hash = "crash";
  return cr;
}

static std::string self_exe() {
  char b[4096];
  ssize_t n = readlink("/proc/self/exe", b, sizeof b - 1);
  if (n <= 0) return "yaepsim";
  b[n] = 0;
  return b;
}

static int classify(const std::string &path) {
  ClassResult cr = classify_text(read_file(path), self_exe());
  for (size_t i = 0; i < cr.classes.size(); i++) printf("CLASS %s | %s\n", cr.classes[i].c_str(), cr.details[i].c_str());
  printf("HASH %s\n", cr.hash.c_str());
  return cr.classes.empty() ? 0 : 1;
}

// ---------------------------------------------------------------- minimisation (ddmin over ops, then faults, inputs, grammars)
static bool has_class(const Plan &p, const std::string &cls, const std::string &exe, long *budget) {
  // minimisation also has a wall-clock limit (a violation that is a hang costs a full time-out per attempt);
  // the limit only decides how small the replay file gets, never the verdict
  static time_t t0 = time(nullptr);
  if (time(nullptr) - t0 > 150) *budget = 0;
  if (*budget <= 0) return false;
  (*budget)--;
  ClassResult cr = classify_text(plan_to_text(p), exe);
  for (auto &c : cr.classes) if (c == cls) return true;
  return false;
}

static int minimize(const std::string &path, const std::string &out, const std::string &cls) {
  Plan p;
  std::string err;
  if (!plan_from_text(read_file(path), &p, &err)) { fprintf(stderr, "bad plan: %s\n", err.c_str()); return 2; }
  std::string exe = self_exe();
  long budget = 300;
  if (!has_class(p, cls, exe, &budget)) { printf("MINIMIZE not-reproduced\n"); return 2; }
  // ddmin over ops
  size_t n = 2;
  while (p.ops.size() >= 2 && budget > 0) {
    size_t len = p.ops.size();
    size_t chunk = (len + n - 1) / n;
    bool reduced = false;
    for (size_t start = 0; start < len && budget > 0; start += chunk) {
      Plan q = p;
      q.ops.erase(q.ops.begin() + (long)start, q.ops.begin() + (long)std::min(len, start + chunk));
      if (!q.ops.empty() && has_class(q, cls, exe, &budget)) { p = q; n = std::max<size_t>(n - 1, 2); reduced = true; break; }
    }
    if (!reduced) {
      if (n >= len) break;
      n = std::min(len, n * 2);
    }
  }
  // drop fault attachments
  for (size_t i = 0; i < p.ops.size() && budget > 0; i++)
    if (p.ops[i].fault.type != Fault::NONE) {
      Plan q = p;
      q.ops[i].fault = Fault();
      if (has_class(q, cls, exe, &budget)) p = q;
    }
  // simplify configuration
  {
    Plan q = p;
    q.cfg.knobs = 0; q.cfg.cache_skip = 0; q.cfg.sink = 0; q.cfg.pad = 0; q.cfg.realloc_mode = 0;
    if (budget > 0 && has_class(q, cls, exe, &budget)) p = q;
    q = p; q.backends = 1;
    if (p.backends == 3 && budget > 0 && has_class(q, cls, exe, &budget)) p = q;
    else { q = p; q.backends = 2; if (p.backends == 3 && budget > 0 && has_class(q, cls, exe, &budget)) p = q; }
  }
  // shrink inputs token-wise
  for (size_t i = 0; i < p.inputs.size(); i++) {
    bool used = false;
    for (auto &o : p.ops) if (o.kind == OP_PARSE && o.input == (int)i) used = true;
    if (!used) { p.inputs[i].clear(); continue; }
    for (size_t k = 0; k < p.inputs[i].size() && budget > 0;) {
      Plan q = p;
      q.inputs[i].erase(q.inputs[i].begin() + (long)k);
      if (has_class(q, cls, exe, &budget)) p = q; else k++;
    }
  }
  // shrink read-route grammars rule-wise
  for (size_t gi = 0; gi < p.grammars.size(); gi++) {
    bool used = false;
    for (auto &o : p.ops) if (o.kind == OP_DEFINE && o.grammar == (int)gi) used = true;
    if (!used) { p.grammars[gi].rules.clear(); p.grammars[gi].terms.clear(); p.grammars[gi].desc = ""; p.grammars[gi].text = false; continue; }
    if (p.grammars[gi].text) continue;
    for (size_t k = p.grammars[gi].rules.size(); k-- > 1 && budget > 0;) {
      Plan q = p;
      q.grammars[gi].rules.erase(q.grammars[gi].rules.begin() + (long)k);
      if (has_class(q, cls, exe, &budget)) p = q;
    }
  }
  std::ofstream f(out);
  f << "# minimised replay for violation class " << cls << "\n" << plan_to_text(p);
  f.close();
  printf("MINIMIZED ops=%zu runs_used=%ld out=%s\n", p.ops.size(), 300 - budget, out.c_str());
  return 0;
}

int main(int argc, char **argv) {
  std::string mode = "hist", plandir;
  uint64_t from = 0, to = 0;
  bool shapes = false;
  for (int i = 1; i + 1 < argc; i++) if (std::string(argv[i]) == "--focus") g_focus = atoi(argv[i + 1]);
  for (int i = 1; i < argc; i++) {
    std::string a = argv[i];
    if (a == "--mode" && i + 1 < argc) mode = argv[++i];
    else if (a == "--focus" && i + 1 < argc) ++i;
    else if (a == "--seeds" && i + 1 < argc) {
      std::string s = argv[++i];
      size_t c = s.find(':');
      from = strtoull(s.c_str(), nullptr, 10);
      to = c == std::string::npos ? from + 1 : strtoull(s.c_str() + c + 1, nullptr, 10);
    } else if (a == "--plandir" && i + 1 < argc) plandir = argv[++i];
    else if (a == "--shapes") shapes = true;
    else if (a == "--emit-plan" && i + 1 < argc) {
      uint64_t seed = strtoull(argv[++i], nullptr, 10);
      for (int j = 1; j < argc; j++) if (std::string(argv[j]) == "--mode" && j + 1 < argc) mode = argv[j + 1];
      fputs(plan_to_text(make_plan(mode, seed)).c_str(), stdout);
      return 0;
    } else if (a == "--replay" && i + 1 < argc) {
      std::string path = argv[++i];
      bool keep = false, ann = false;
      for (int j = 1; j < argc; j++) { if (std::string(argv[j]) == "--log") keep = true; if (std::string(argv[j]) == "--announce") ann = true; }
      return replay(path, keep, ann);
    } else if (a == "--classify" && i + 1 < argc) return classify(argv[++i]);
    else if (a == "--minimize" && i + 3 < argc) return minimize(argv[i + 1], argv[i + 2], argv[i + 3]);
    else if (a == "--oracle-server") { oracle_serve_stdio(); return 0; }
    else if (a == "--perturb") return perturb_main(argc, argv);
    else if (a == "--oomenum") return oomenum_main(argc, argv);
  }
  if (to > from) return worker(mode, from, to, plandir, shapes);
  fprintf(stderr, "usage: yaepsim --mode hist|oom --seeds A:B [--plandir D] | --emit-plan S | --replay F [--log] | --classify F | --minimize F OUT CLASS\n");
  return 2;
}
