/* Functions wrapping the macro packages of the C containers (contshim.c).  */
#ifndef CONTSHIM_H
#define CONTSHIM_H
#include <stddef.h>
#ifdef __cplusplus
extern "C" {
#endif
struct YaepAllocator;
void *cs_ht_create (struct YaepAllocator *a, size_t size, unsigned (*h) (const void *), int (*eq) (const void *, const void *));
void cs_ht_empty (void *t);
void cs_ht_delete (void *t);
const void **cs_ht_find (void *t, const void *el, int reserve);
void cs_ht_remove (void *t, const void *el);
size_t cs_ht_size (void *t);
size_t cs_ht_count (void *t);
size_t cs_os_sizeof (void);
void cs_os_create (void *o, struct YaepAllocator *a, size_t len);
void cs_os_delete (void *o);
void cs_os_empty (void *o);
void cs_os_nullify (void *o);
void cs_os_finish (void *o);
size_t cs_os_length (void *o);
void *cs_os_begin (void *o);
void cs_os_shorten (void *o, size_t n);
void cs_os_expand (void *o, size_t n);
void cs_os_add_byte (void *o, int b);
void cs_os_add_memory (void *o, const void *p, size_t n);
void cs_os_add_string (void *o, const char *s);
size_t cs_vlo_sizeof (void);
void cs_vlo_create (void *v, struct YaepAllocator *a, size_t len);
void cs_vlo_delete (void *v);
void cs_vlo_nullify (void *v);
void cs_vlo_tailor (void *v);
size_t cs_vlo_length (void *v);
void *cs_vlo_begin (void *v);
void cs_vlo_shorten (void *v, size_t n);
void cs_vlo_expand (void *v, size_t n);
void cs_vlo_add_byte (void *v, int b);
void cs_vlo_add_memory (void *v, const void *p, size_t n);
void cs_vlo_add_string (void *v, const char *s);
#ifdef __cplusplus
}
#endif
#endif
