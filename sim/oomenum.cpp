// C17 thorough: exhaustive enumeration of the failing allocation k over a scenario corpus
// (DESIGN.md §5 C17).  Every scenario is a short plan with a bystander object that is used
// before and after the fault and a fresh object created after it.
#include "exec.h"
#include <cstdio>
#include <cstdlib>
#include <cstring>
#include <fstream>

namespace sim {

namespace {

struct Scenario {
  std::string name;
  Plan plan;
  std::vector<int> fault_ops; // indexes of the operations whose allocations are enumerated
};

Op mk(int task, OpKind k) { Op o; o.task = task; o.kind = k; return o; }
Op mkset(int task, Setter s, int v) { Op o = mk(task, OP_SET); o.setter = s; o.value = v; return o; }

std::vector<int> chars(const char *s) { std::vector<int> v; for (; *s; s++) v.push_back((unsigned char)*s); return v; }

// bystander grammar/input (always plan grammar 0 / input 0)
void add_bystander_pre(Plan &p) {
  p.grammars.push_back(handwritten_good()[0]); // suite-ETF
  p.inputs.push_back(chars("a+a*(a+a)"));
  p.ops.push_back(mk(2, OP_CREATE));
  { Op o = mk(2, OP_DEFINE); o.grammar = 0; p.ops.push_back(o); }
  { Op o = mk(2, OP_PARSE); o.input = 0; o.alloc = AM_CUSTOM_FREE; p.ops.push_back(o); }
}
void add_post(Plan &p, int reuse /*0 none, 1 define again, 2 parse again*/) {
  // the struck object can be used again and freed, the bystander and a new object behave like fresh ones
  { Op o = mk(2, OP_PARSE); o.input = 0; o.alloc = AM_DEFAULT; p.ops.push_back(o); }
  p.ops.push_back(mk(1, OP_ERRQ));
  if (reuse == 1) { Op o = mk(1, OP_DEFINE); o.grammar = 1; p.ops.push_back(o); }
  if (reuse == 2) {
    Op o = mk(1, OP_PARSE); o.input = 1; o.alloc = AM_CUSTOM_FREE; p.ops.push_back(o);
    if (p.inputs.size() > 2) { Op o2 = mk(1, OP_PARSE); o2.input = 2; o2.alloc = AM_DEFAULT; p.ops.push_back(o2); }
  }
  p.ops.push_back(mk(1, OP_FREE_GRAMMAR));
  p.ops.push_back(mk(3, OP_CREATE));
  { Op o = mk(3, OP_DEFINE); o.grammar = 0; p.ops.push_back(o); }
  { Op o = mk(3, OP_PARSE); o.input = 0; o.alloc = AM_CUSTOM_FREE; p.ops.push_back(o); }
  { Op o = mk(2, OP_PARSE); o.input = 0; o.alloc = AM_CUSTOM_FREE; p.ops.push_back(o); }
  p.ops.push_back(mk(2, OP_FREE_GRAMMAR));
  p.ops.push_back(mk(3, OP_FREE_GRAMMAR));
}

std::vector<Scenario> build_corpus() {
  std::vector<Scenario> out;
  const auto &good = handwritten_good();
  const auto &bad = handwritten_bad();
  static const int knob_sets[] = {0, 1, 2};
  // generated grammars with a fixed seed: part of the corpus definition
  std::vector<GrammarSpec> gen;
  {
    Rng r(20260928);
    for (int i = 0; i < 6; i++) gen.push_back(gen_grammar(r));
  }
  for (int knobs : knob_sets) {
    // 1. create
    {
      Scenario s;
      s.name = "create/knobs" + std::to_string(knobs);
      s.plan.cfg.knobs = knobs;
      add_bystander_pre(s.plan);
      s.fault_ops.push_back((int)s.plan.ops.size());
      s.plan.ops.push_back(mk(1, OP_CREATE));
      add_post(s.plan, 0);
      out.push_back(s);
    }
    // 2. definitions: good and defective, both routes
    std::vector<const GrammarSpec *> defs;
    for (auto &g : good) defs.push_back(&g);
    for (auto &g : gen) defs.push_back(&g);
    for (auto &g : bad) defs.push_back(&g);
    for (auto *g : defs) {
      Scenario s;
      s.name = "define/" + g->tag + (g->text ? "/text" : "/read") + "/knobs" + std::to_string(knobs);
      s.plan.cfg.knobs = knobs;
      add_bystander_pre(s.plan);
      s.plan.grammars.push_back(*g);
      s.plan.ops.push_back(mk(1, OP_CREATE));
      if (knobs == 1) s.plan.ops.push_back(mkset(1, S_DEBUG, 4)); // the definition prints rules and sets
      s.fault_ops.push_back((int)s.plan.ops.size());
      { Op o = mk(1, OP_DEFINE); o.grammar = 1; s.plan.ops.push_back(o); }
      // a redefinition of a defined object is a different path (empty, then define)
      if (g->expect == 0 && knobs != 2) {
        s.fault_ops.push_back((int)s.plan.ops.size());
        { Op o = mk(1, OP_DEFINE); o.grammar = 1; s.plan.ops.push_back(o); }
      }
      add_post(s.plan, 1);
      out.push_back(s);
    }
    // 3. parses
    struct PS { const char *gtag; const char *in; int one, cost, rec; const char *what; };
    static const PS ps[] = {
        {"suite-ETF", "a+a*(a*a+a)", 1, 0, 1, "sentence"},
        {"suite-ETF", "a+a*(a*+a", 1, 0, 1, "recovery"},
        {"suite-ETF", "a++a", 1, 0, 0, "norecovery"},
        {"suite-ETF", "a+a,a", 1, 0, 1, "invalid-token"},
        {"ambig-E", "a+a*a+a", 0, 0, 1, "all-parses"},
        {"ambig-E", "a+a*a", 1, 0, 1, "one-of-ambiguous"},
        {"cost-E", "a+a*a+a", 0, 1, 1, "cost-all"},
        {"cost-E", "a*a+a", 1, 1, 1, "cost-one"},
        {"cost-ABC", "ab", 1, 1, 1, "cost-pruning"},
        {"nullable", "ac", 0, 0, 1, "nullable"},
        {"hidden-lr", "aaxbb", 1, 0, 1, "hidden-left-recursion"},
        {"err-stmts", "i;xi;i;", 1, 0, 1, "error-rule"},
        {"alt-deep", "aaaa", 0, 1, 1, "deep-alternatives"},
        {"read-sparse", nullptr, 1, 0, 1, "sparse-codes"},
    };
    for (auto &x : ps) {
      const GrammarSpec *g = nullptr;
      for (auto &gg : good) if (gg.tag == x.gtag) g = &gg;
      if (!g) continue;
      for (int la = 0; la <= 2; la++) {
        for (int am = 0; am < 3; am++) {
          if (knobs != 0 && am == 1) continue;      // alloc-without-free only with shipped sizes
          if (la == 0 && am == 2 && knobs == 2) continue;
          Scenario s;
          static const char *amn[] = {"custom+free", "custom", "default"};
          s.name = std::string("parse/") + x.what + "/la" + std::to_string(la) + "/" + amn[am] + "/knobs" + std::to_string(knobs);
          s.plan.cfg.knobs = knobs;
          add_bystander_pre(s.plan);
          s.plan.grammars.push_back(*g);
          if (x.in) s.plan.inputs.push_back(chars(x.in));
          else s.plan.inputs.push_back({7, 300, 20000, 7, 300, 7, 20007});
          s.plan.ops.push_back(mk(1, OP_CREATE));
          if (la != 1) s.plan.ops.push_back(mkset(1, S_LOOKAHEAD, la));
          if (!x.one) s.plan.ops.push_back(mkset(1, S_ONE_PARSE, 0));
          if (x.cost) s.plan.ops.push_back(mkset(1, S_COST, 1));
          if (!x.rec) s.plan.ops.push_back(mkset(1, S_RECOVERY, 0));
          if (la == 2 && am == 0) s.plan.ops.push_back(mkset(1, S_DEBUG, 3));
          { Op o = mk(1, OP_DEFINE); o.grammar = 1; s.plan.ops.push_back(o); }
          if (la == 2 && am != 0) { // a second parse on the same object is a different path at lookahead 2
            Op o = mk(1, OP_PARSE); o.input = 1; o.alloc = AM_CUSTOM_FREE; s.plan.ops.push_back(o);
          }
          s.fault_ops.push_back((int)s.plan.ops.size());
          { Op o = mk(1, OP_PARSE); o.input = 1; o.alloc = (AllocMode)am; s.plan.ops.push_back(o); }
          // after the fault the struck object parses the same input again and a second, shorter one
          if (x.in) { std::string sh(x.in); s.plan.inputs.push_back(chars(sh.substr(0, sh.size() / 2).c_str())); }
          add_post(s.plan, 2);
          out.push_back(s);
        }
      }
    }
  }
  return out;
}

} // namespace

static void print_v(const char *tag, const Violation &v) {
  printf("V seed=0 prop=%s kind=%s site=%s probe=%d op=%d be=%d detail=%s %s\n", v.prop.c_str(), v.kind.c_str(), esc(v.site).c_str(),
         v.probe ? 1 : 0, v.op, v.backend, esc(v.detail).c_str(), tag);
}

int oomenum_main(int argc, char **argv) {
  int from = 0, to = -1, emit_s = -1, emit_b = 0, emit_op = 0;
  long emit_k = 0, cap = 4000;
  bool list = false;
  int resume_b = 0, resume_op = -1;
  long resume_k = 0;
  for (int i = 1; i < argc; i++) {
    std::string a = argv[i];
    if (a == "--from" && i + 1 < argc) from = atoi(argv[++i]);
    else if (a == "--to" && i + 1 < argc) to = atoi(argv[++i]);
    else if (a == "--list") list = true;
    else if (a == "--cap" && i + 1 < argc) cap = atol(argv[++i]);
    else if (a == "--emit" && i + 4 < argc) { emit_s = atoi(argv[i + 1]); emit_b = atoi(argv[i + 2]); emit_op = atoi(argv[i + 3]); emit_k = atol(argv[i + 4]); i += 4; }
    else if (a == "--resume" && i + 3 < argc) { resume_b = atoi(argv[i + 1]); resume_op = atoi(argv[i + 2]); resume_k = atol(argv[i + 3]); i += 3; }
  }
  std::vector<Scenario> corpus = build_corpus();
  if (list) {
    printf("SCENARIOS %zu\n", corpus.size());
    for (size_t i = 0; i < corpus.size(); i++) printf("SCEN %zu %s\n", i, corpus[i].name.c_str());
    return 0;
  }
  if (emit_s >= 0) {
    if (emit_s >= (int)corpus.size()) return 2;
    Plan p = corpus[(size_t)emit_s].plan;
    p.mode = "oomenum";
    p.seed = (uint64_t)emit_s;
    p.backends = emit_b;
    if (emit_k > 0) { p.ops[(size_t)emit_op].fault.type = Fault::ALLOC; p.ops[(size_t)emit_op].fault.k = emit_k; p.ops[(size_t)emit_op].fault.kx = emit_k; }
    fputs(plan_to_text(p).c_str(), stdout);
    return 0;
  }
  if (to < 0 || to > (int)corpus.size()) to = (int)corpus.size();
  oracle_start();
  RunStats total;
  long runs = 0, clean = 0;
  for (int si = from; si < to; si++) {
    const Scenario &sc = corpus[(size_t)si];
    for (int b = 1; b <= 2; b++) {
      if (si == from && resume_op >= 0 && b < resume_b) continue;
      Plan p0 = sc.plan;
      p0.mode = "oomenum";
      p0.seed = (uint64_t)si;
      p0.backends = b;
      ExecOptions o;
      printf("ENUM %d %d -1 0\n", si, b);
      fflush(stdout);
      RunResult r0 = execute_plan(p0, o);
      runs++;
      total.merge(r0.stats);
      for (auto &v : r0.violations) print_v(("scen=" + std::to_string(si) + " b=" + std::to_string(b) + " op=-1 k=0").c_str(), v);
      if (r0.violations.empty()) clean++;
      if (r0.stats.probes.count("run_aborted")) { printf("RECYCLE %d %d -1 0\n", si, b); goto done; }
      for (int fo : sc.fault_ops) {
        if (si == from && resume_op >= 0 && b == resume_b && fo < resume_op) continue;
        long n = b == 1 ? r0.requests_c[fo] : r0.requests_x[fo];
        // all k; beyond the cap: the first and last cap/8 and a stratified sample in between
        std::vector<long> ks;
        if (n <= cap) for (long k = 1; k <= n; k++) ks.push_back(k);
        else {
          long edge = cap / 8;
          for (long k = 1; k <= edge; k++) ks.push_back(k);
          long mid = cap - 2 * edge;
          for (long j = 0; j < mid; j++) ks.push_back(edge + 1 + j * (n - 2 * edge) / mid);
          for (long k = n - edge + 1; k <= n; k++) ks.push_back(k);
        }
        printf("SCENINFO %d %d %d requests=%ld enumerated=%zu exhaustive=%d name=%s\n", si, b, fo, n, ks.size(), n <= cap ? 1 : 0, sc.name.c_str());
        for (long k : ks) {
          if (si == from && resume_op >= 0 && b == resume_b && fo == resume_op && k <= resume_k) continue;
          Plan p = p0;
          p.ops[(size_t)fo].fault.type = Fault::ALLOC;
          p.ops[(size_t)fo].fault.k = k;
          p.ops[(size_t)fo].fault.kx = k;
          printf("ENUM %d %d %d %ld\n", si, b, fo, k);
          fflush(stdout);
          RunResult r = execute_plan(p, o);
          runs++;
          total.merge(r.stats);
          bool fired = false;
          for (auto &kv : r.stats.faults) if (kv.first.compare(0, 6, "alloc@") == 0) fired = true;
          if (!fired) total.probes["enumerated_fault_did_not_fire"]++;
          if (r.violations.empty()) clean++;
          for (auto &v : r.violations) print_v(("scen=" + std::to_string(si) + " b=" + std::to_string(b) + " op=" + std::to_string(fo) + " k=" + std::to_string(k)).c_str(), v);
          if (r.stats.probes.count("run_aborted")) { printf("RECYCLE %d %d %d %ld\n", si, b, fo, k); goto done; }
        }
      }
    }
    printf("SCENDONE %d\n", si);
  }
done:
  // stats line (same format as the worker's)
  {
    const RunStats &s = total;
    printf("STATS {\"runs\":%ld,\"clean\":%ld,\"ops\":%ld,\"ops_skipped\":%ld,\"alloc_events\":%ld,\"callbacks\":%ld,\"parses\":%ld,\"parses_ok\":%ld,"
           "\"defines\":%ld,\"defines_ok\":%ld,\"trees\":%ld,\"twin_queries\":%ld,\"twin_hits\":%ld,\"undecided_large\":%ld,\"denot_compared\":%ld,",
           runs, clean, s.ops, s.ops_skipped, s.alloc_events, s.callbacks, s.parses, s.parses_ok, s.defines, s.defines_ok, s.trees,
           s.twin_queries, s.twin_hits, s.undecided_large, s.denot_compared);
    printf("\"probes\":{");
    bool first = true;
    for (auto &kv : s.probes) { printf("%s\"%s\":%ld", first ? "" : ",", kv.first.c_str(), kv.second); first = false; }
    printf("},\"faults\":{");
    first = true;
    for (auto &kv : s.faults) { printf("%s\"%s\":%ld", first ? "" : ",", kv.first.c_str(), kv.second); first = false; }
    const Totals &t = heap_totals();
    printf("},\"heap\":{\"allocs\":%ld,\"frees\":%ld,\"realloc_moves\":%ld,\"faults_alloc\":%ld,\"hash_expands\":%ld,\"steps\":%ld}}\n", t.allocs, t.frees,
           t.realloc_moves, t.faults_alloc, t.hash_expands, t.steps);
  }
  fflush(stdout);
  oracle_stop();
  return 0;
}

} // namespace sim
