#include "exec.h"
namespace sim { int oomenum_main(int, char **) { return 2; } }
