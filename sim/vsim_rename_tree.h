/* Force-included when compiling /repo/src/yaep.c and yaep.cpp for the
   simulator.  The only direct libc heap calls there are the default parse
   tree allocator (parse_alloc_default / parse_free_default) and bison's
   stack growth: they go to the simulated heap with kind TREE.  exit() is
   an observable event.  stderr is the simulator's debug sink.  */
#ifndef VSIM_RENAME_TREE_H
#define VSIM_RENAME_TREE_H
#include <stdlib.h>
#include <stdio.h>
#include <string.h>
#include <ctype.h>
#include <setjmp.h>
#include <stdarg.h>
#include <limits.h>
#include <stddef.h>
#include <assert.h>
#ifdef __cplusplus
#include <new>
extern "C" {
#endif
void *vsim_tree_malloc (size_t);
void vsim_tree_free (void *);
void vsim_exit (int) __attribute__ ((noreturn));
extern FILE *vsim_sink;
#ifdef __cplusplus
}
#endif
#define malloc vsim_tree_malloc
#define free vsim_tree_free
#define exit vsim_exit
#undef stderr
#define stderr vsim_sink
#endif
