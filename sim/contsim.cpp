int main() { return 2; }
