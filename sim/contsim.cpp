// contsim: container op histories against trivial reference models, with the allocator (placement, realloc moves,
// poison, failure of the k-th request) as the injected environment (DESIGN.md §5 C19).
// The C implementations (macro packages, through contshim.c) and the C++ classes run the same sequence.
#include "plan.h"
#include "simheap.h"
#include "contshim.h"
#include "allocate.h"
#include "hashtab.h"
#include "objstack.h"
#include "vlobject.h"
#include <csetjmp>
#include <cstdio>
#include <cstdlib>
#include <cstring>
#include <ctime>
#include <fstream>
#include <map>
#include <set>
#include <sstream>
#include <sys/time.h>
#include <sys/wait.h>
#include <unistd.h>

using namespace sim;

extern "C" {
void *vsim_malloc(size_t);
void *vsim_calloc(size_t, size_t);
void *vsim_realloc(void *, size_t);
void vsim_free(void *);
}
extern "C" __attribute__((used)) const char *__asan_default_options() {
  return "exitcode=77:detect_leaks=0:abort_on_error=0:allocator_may_return_null=1";
}
extern "C" __attribute__((used)) const char *__ubsan_default_options() { return "print_stacktrace=1:halt_on_error=1:exitcode=78"; }

namespace {

enum K {
  HT_CREATE, HT_INSERT, HT_FIND, HT_REMOVE, HT_EMPTY, HT_COUNT, HT_DELETE,
  OS_CREATE_, OS_ADD_BYTE, OS_ADD_MEM, OS_ADD_STR, OS_EXPAND, OS_SHORTEN, OS_NULLIFY, OS_FINISH, OS_EMPTY_, OS_DELETE_,
  VL_CREATE, VL_ADD_BYTE, VL_ADD_MEM, VL_ADD_STR, VL_EXPAND, VL_SHORTEN, VL_NULLIFY, VL_TAILOR, VL_DELETE, NKINDS
};
const char *kNames[] = {"HT_CREATE", "HT_INSERT", "HT_FIND", "HT_REMOVE", "HT_EMPTY", "HT_COUNT", "HT_DELETE",
                        "OS_CREATE", "OS_ADD_BYTE", "OS_ADD_MEM", "OS_ADD_STR", "OS_EXPAND", "OS_SHORTEN", "OS_NULLIFY", "OS_FINISH", "OS_EMPTY", "OS_DELETE",
                        "VL_CREATE", "VL_ADD_BYTE", "VL_ADD_MEM", "VL_ADD_STR", "VL_EXPAND", "VL_SHORTEN", "VL_NULLIFY", "VL_TAILOR", "VL_DELETE"};

struct COp { int kind = 0; long a = 0, b = 0; std::string bytes; long failk = 0; };
struct CPlan { uint64_t seed = 0; HeapConfig cfg; std::vector<COp> ops; };

std::string cplan_text(const CPlan &p) {
  std::ostringstream o;
  o << "contsim-plan 1\norigin seed=" << p.seed << "\n";
  o << "config knobs=" << p.cfg.knobs << " poison=" << (int)p.cfg.poison << " fpoison=" << (int)p.cfg.free_poison << " pad=" << p.cfg.pad
    << " quar=" << p.cfg.quarantine << " realloc=" << p.cfg.realloc_mode << " salt=" << p.cfg.salt << "\n";
  for (auto &op : p.ops) {
    o << "op " << kNames[op.kind] << " " << op.a << " " << op.b << " " << esc(op.bytes);
    if (op.failk) o << " fail=" << op.failk;
    o << "\n";
  }
  return o.str();
}
bool cplan_parse(const std::string &t, CPlan *p) {
  std::istringstream is(t);
  std::string line;
  while (std::getline(is, line)) {
    std::istringstream ls(line);
    std::string w;
    if (!(ls >> w) || w[0] == '#') continue;
    if (w == "origin") { while (ls >> w) if (w.compare(0, 5, "seed=") == 0) p->seed = strtoull(w.c_str() + 5, nullptr, 10); }
    else if (w == "config") {
      while (ls >> w) {
        auto v = [&](const char *k) { size_t n = strlen(k); return w.compare(0, n, k) == 0 ? atoll(w.c_str() + n) : -1; };
        if (v("knobs=") >= 0) p->cfg.knobs = (int)v("knobs=");
        if (v("poison=") >= 0) p->cfg.poison = (uint8_t)v("poison=");
        if (v("fpoison=") >= 0) p->cfg.free_poison = (uint8_t)v("fpoison=");
        if (v("pad=") >= 0) p->cfg.pad = (int)v("pad=");
        if (v("quar=") >= 0) p->cfg.quarantine = (int)v("quar=");
        if (v("realloc=") >= 0) p->cfg.realloc_mode = (int)v("realloc=");
        if (w.compare(0, 5, "salt=") == 0) p->cfg.salt = strtoull(w.c_str() + 5, nullptr, 10);
      }
      if (p->cfg.knobs < 0 || p->cfg.knobs >= kNumKnobs) return false;
    } else if (w == "op") {
      COp op;
      std::string k, b;
      if (!(ls >> k >> op.a >> op.b >> b)) return false;
      op.kind = -1;
      for (int i = 0; i < NKINDS; i++) if (k == kNames[i]) op.kind = i;
      if (op.kind < 0) return false;
      op.bytes = unesc(b);
      while (ls >> w) if (w.compare(0, 5, "fail=") == 0) op.failk = atol(w.c_str() + 5);
      p->ops.push_back(op);
    }
  }
  return true;
}

// ---------------------------------------------------------------- keys and hash functions
struct Key { int k; };
Key g_keys[48];
int g_hashkind = 0;
unsigned hfun(const void *e) {
  int k = ((const Key *)e)->k;
  switch (g_hashkind) {
  case 0: return (unsigned)k;
  case 1: return 7u;
  case 2: return (unsigned)(k % 3);
  default: return (unsigned)k * 2654435761u;
  }
}
int eqfun(const void *a, const void *b) { return ((const Key *)a)->k == ((const Key *)b)->k; }

// ---------------------------------------------------------------- implementations
struct Impl {
  virtual ~Impl() {}
  virtual void ht_create(YaepAllocator *a, size_t n) = 0;
  virtual const void **ht_find(const void *el, int reserve) = 0;
  virtual void ht_remove(const void *el) = 0;
  virtual void ht_empty() = 0;
  virtual void ht_delete() = 0;
  virtual size_t ht_size() = 0;
  virtual size_t ht_count() = 0;
  virtual void os_create(YaepAllocator *a, size_t n) = 0;
  virtual void os_delete() = 0;
  virtual void os_empty() = 0;
  virtual void os_nullify() = 0;
  virtual void os_finish() = 0;
  virtual size_t os_length() = 0;
  virtual void *os_begin() = 0;
  virtual void os_shorten(size_t n) = 0;
  virtual void os_expand(size_t n) = 0;
  virtual void os_add_byte(int b) = 0;
  virtual void os_add_memory(const void *p, size_t n) = 0;
  virtual void os_add_string(const char *s) = 0;
  virtual void vl_create(YaepAllocator *a, size_t n) = 0;
  virtual void vl_delete() = 0;
  virtual void vl_nullify() = 0;
  virtual void vl_tailor() = 0;
  virtual size_t vl_length() = 0;
  virtual void *vl_begin() = 0;
  virtual void vl_shorten(size_t n) = 0;
  virtual void vl_expand(size_t n) = 0;
  virtual void vl_add_byte(int b) = 0;
  virtual void vl_add_memory(const void *p, size_t n) = 0;
  virtual void vl_add_string(const char *s) = 0;
};

struct ImplC : Impl {
  void *ht = nullptr;
  void *osd, *vld; // descriptors in caller memory
  ImplC() { osd = ::malloc(cs_os_sizeof()); vld = ::malloc(cs_vlo_sizeof()); memset(osd, 0x5C, cs_os_sizeof()); memset(vld, 0x5C, cs_vlo_sizeof()); }
  ~ImplC() { ::free(osd); ::free(vld); }
  void ht_create(YaepAllocator *a, size_t n) override { ht = cs_ht_create(a, n, hfun, eqfun); }
  const void **ht_find(const void *el, int r) override { return cs_ht_find(ht, el, r); }
  void ht_remove(const void *el) override { cs_ht_remove(ht, el); }
  void ht_empty() override { cs_ht_empty(ht); }
  void ht_delete() override { cs_ht_delete(ht); ht = nullptr; }
  size_t ht_size() override { return cs_ht_size(ht); }
  size_t ht_count() override { return cs_ht_count(ht); }
  void os_create(YaepAllocator *a, size_t n) override { cs_os_create(osd, a, n); }
  void os_delete() override { cs_os_delete(osd); }
  void os_empty() override { cs_os_empty(osd); }
  void os_nullify() override { cs_os_nullify(osd); }
  void os_finish() override { cs_os_finish(osd); }
  size_t os_length() override { return cs_os_length(osd); }
  void *os_begin() override { return cs_os_begin(osd); }
  void os_shorten(size_t n) override { cs_os_shorten(osd, n); }
  void os_expand(size_t n) override { cs_os_expand(osd, n); }
  void os_add_byte(int b) override { cs_os_add_byte(osd, b); }
  void os_add_memory(const void *p, size_t n) override { cs_os_add_memory(osd, p, n); }
  void os_add_string(const char *s) override { cs_os_add_string(osd, s); }
  void vl_create(YaepAllocator *a, size_t n) override { cs_vlo_create(vld, a, n); }
  void vl_delete() override { cs_vlo_delete(vld); }
  void vl_nullify() override { cs_vlo_nullify(vld); }
  void vl_tailor() override { cs_vlo_tailor(vld); }
  size_t vl_length() override { return cs_vlo_length(vld); }
  void *vl_begin() override { return cs_vlo_begin(vld); }
  void vl_shorten(size_t n) override { cs_vlo_shorten(vld, n); }
  void vl_expand(size_t n) override { cs_vlo_expand(vld, n); }
  void vl_add_byte(int b) override { cs_vlo_add_byte(vld, b); }
  void vl_add_memory(const void *p, size_t n) override { cs_vlo_add_memory(vld, p, n); }
  void vl_add_string(const char *s) override { cs_vlo_add_string(vld, s); }
};

struct ImplX : Impl {
  hash_table *ht = nullptr;
  os *o = nullptr;
  vlo *v = nullptr;
  void ht_create(YaepAllocator *a, size_t n) override { ht = new hash_table(a, n, hfun, eqfun); }
  const void **ht_find(const void *el, int r) override { return (const void **)ht->find_entry(el, r); }
  void ht_remove(const void *el) override { ht->remove_element_from_entry(el); }
  void ht_empty() override { ht->empty(); }
  void ht_delete() override { delete ht; ht = nullptr; }
  size_t ht_size() override { return ht->size(); }
  size_t ht_count() override { return ht->elements_number(); }
  void os_create(YaepAllocator *a, size_t n) override { o = new os(a, n); }
  void os_delete() override { delete o; o = nullptr; }
  void os_empty() override { o->empty(); }
  void os_nullify() override { o->top_nullify(); }
  void os_finish() override { o->top_finish(); }
  size_t os_length() override { return o->top_length(); }
  void *os_begin() override { return o->top_begin(); }
  void os_shorten(size_t n) override { o->top_shorten(n); }
  void os_expand(size_t n) override { o->top_expand(n); }
  void os_add_byte(int b) override { o->top_add_byte(b); }
  void os_add_memory(const void *p, size_t n) override { o->top_add_memory(p, n); }
  void os_add_string(const char *s) override { o->top_add_string(s); }
  void vl_create(YaepAllocator *a, size_t n) override { v = new vlo(a, n); }
  void vl_delete() override { delete v; v = nullptr; }
  void vl_nullify() override { v->nullify(); }
  void vl_tailor() override { v->tailor(); }
  size_t vl_length() override { return v->length(); }
  void *vl_begin() override { return v->begin(); }
  void vl_shorten(size_t n) override { v->shorten(n); }
  void vl_expand(size_t n) override { v->expand(n); }
  void vl_add_byte(int b) override { v->add_byte(b); }
  void vl_add_memory(const void *p, size_t n) override { v->add_memory(p, n); }
  void vl_add_string(const char *s) override { v->add_string(s); }
};

// ---------------------------------------------------------------- models
struct Fin { const char *addr; std::string bytes; };
struct Model {
  bool ht = false;
  std::set<int> keys;
  bool removed_since_create = false;
  bool os = false;
  std::vector<Fin> fins;
  std::string top;
  bool vl = false;
  std::string v;
};

struct CViolation { std::string kind, site, detail; int op; int be; };
struct CResult {
  std::vector<CViolation> viol;
  uint64_t hash = 1469598103934665603ull, shape = 1469598103934665603ull;
  std::map<std::string, long> probes, faults;
  long ops = 0, alloc_events = 0;
  bool aborted = false;
};

jmp_buf g_jmp;
void alloc_error(void *) { longjmp(g_jmp, 5); }
int g_announce = -1;

struct Runner {
  CPlan plan;
  Backend be;
  Impl *im;
  Model m;
  YaepAllocator *alloc = nullptr;
  CResult &res;
  int cur = -1;
  Runner(const CPlan &p, Backend b, CResult &r) : plan(p), be(b), res(r) { im = b == B_C ? (Impl *)new ImplC() : (Impl *)new ImplX(); }
  ~Runner() { delete im; }
  void viol(const char *kind, const std::string &detail) {
    if (res.viol.size() < 32) res.viol.push_back({kind, kNames[plan.ops[(size_t)cur].kind], detail, cur, (int)be});
  }
  template <class F> int guarded(F f) {
    set_exit_jump(&g_jmp);
    int j = setjmp(g_jmp);
    if (j == 0) {
      LibEnter e;
      f();
    }
    set_exit_jump(nullptr);
    g_in_lib = 0;
    return j;
  }
  // --- checks of the implementation against a model state
  bool check_ht(const Model &mm, std::string *why) {
    if (!mm.ht) return true;
    for (int k = 0; k < 48; k++) {
      const void **e = nullptr;
      int j = guarded([&] { e = im->ht_find(&g_keys[k], 0); });
      if (j) { *why = "allocation failure during a pure lookup"; return true; } // an expansion attempted by find may fail: nothing to compare
      const void *got = e ? *e : nullptr;
      bool want = mm.keys.count(k) != 0;
      if (want && got != &g_keys[k]) { *why = "key " + std::to_string(k) + " was inserted and not removed but find returns " + (got ? "another entry" : "an empty entry"); return false; }
      if (!want && got != nullptr) { *why = "key " + std::to_string(k) + " is absent but find returns a non-empty entry"; return false; }
    }
    size_t c = 0;
    guarded([&] { c = im->ht_count(); });
    if (c != mm.keys.size()) { *why = "element count " + std::to_string(c) + ", model " + std::to_string(mm.keys.size()); return false; }
    return true;
  }
  bool check_os(const Model &mm, std::string *why) {
    if (!mm.os) return true;
    for (size_t i = 0; i < mm.fins.size(); i++)
      if (memcmp(mm.fins[i].addr, mm.fins[i].bytes.data(), mm.fins[i].bytes.size()) != 0) { *why = "finished object " + std::to_string(i) + " changed"; return false; }
    size_t len = 0;
    void *b = nullptr;
    guarded([&] { len = im->os_length(); b = im->os_begin(); });
    if (len != mm.top.size()) { *why = "top object length " + std::to_string(len) + ", model " + std::to_string(mm.top.size()); return false; }
    if (len && memcmp(b, mm.top.data(), len) != 0) { *why = "top object bytes differ from the bytes appended so far"; return false; }
    return true;
  }
  bool check_vl(const Model &mm, std::string *why) {
    if (!mm.vl) return true;
    size_t len = 0;
    void *b = nullptr;
    guarded([&] { len = im->vl_length(); b = im->vl_begin(); });
    if (len != mm.v.size()) { *why = "VLO length " + std::to_string(len) + ", model " + std::to_string(mm.v.size()); return false; }
    if (len && memcmp(b, mm.v.data(), len) != 0) { *why = "VLO bytes differ from the bytes appended minus those shortened"; return false; }
    return true;
  }
  bool check_all(const Model &mm, std::string *why, int kind) {
    if (kind <= HT_DELETE) return check_ht(mm, why);
    if (kind <= OS_DELETE_) return check_os(mm, why);
    return check_vl(mm, why);
  }
  static std::string fillpat(size_t n, long seed) { std::string s(n, 0); for (size_t i = 0; i < n; i++) s[i] = (char)(1 + (seed * 31 + (long)i * 7) % 250); return s; }

  void run_op(const COp &op, int idx) {
    cur = idx;
    if (g_announce >= 0) { char b[96]; int n = snprintf(b, sizeof b, "OPBEGIN %d %s be=%d fault=%d\n", idx, kNames[op.kind], (int)be, op.failk ? 1 : 0); if (write(g_announce, b, (size_t)n) < 0) {} }
    OpFault hf;
    hf.alloc_k = op.failk;
    heap_begin_op(be, idx, hf);
    res.ops++;
    Model before = m, after = m;
    int j = 0;
    bool applicable = true;
    const Key *key = &g_keys[(size_t)(((op.a % 48) + 48) % 48)];
    switch (op.kind) {
    case HT_CREATE:
      if (m.ht) { applicable = false; break; }
      g_hashkind = (int)(op.b & 3);
      after.ht = true; after.keys.clear(); after.removed_since_create = false;
      j = guarded([&] { im->ht_create(alloc, (size_t)op.a); });
      break;
    case HT_INSERT: {
      if (!m.ht) { applicable = false; break; }
      after.keys.insert(key->k);
      const void **e = nullptr;
      j = guarded([&] { e = im->ht_find(key, 1); });
      if (!j) {
        if (m.keys.count(key->k)) { if (*e != key) viol("ht_find_present", "reserving find of a present key does not return its entry"); }
        else {
          if (*e != nullptr) viol("ht_reserved_not_empty", "the entry reserved for an absent key does not read as empty");
          *e = key;
          if (m.removed_since_create) res.probes["ht_insert_after_remove"]++;
        }
      }
      break;
    }
    case HT_FIND: {
      if (!m.ht) { applicable = false; break; }
      const void **e = nullptr;
      j = guarded([&] { e = im->ht_find(key, 0); });
      if (!j) {
        const void *got = *e;
        if (m.keys.count(key->k) ? got != key : got != nullptr) viol("ht_find", "find of key " + std::to_string(key->k) + " returns " + (got ? "an entry" : "empty") + ", model says " + (m.keys.count(key->k) ? "present" : "absent"));
      }
      break;
    }
    case HT_REMOVE:
      if (!m.ht || !m.keys.count(key->k)) { applicable = false; break; } // removing an absent element is outside the contract
      after.keys.erase(key->k);
      after.removed_since_create = true;
      j = guarded([&] { im->ht_remove(key); });
      break;
    case HT_EMPTY:
      if (!m.ht) { applicable = false; break; }
      if (m.keys.empty() && m.removed_since_create) res.probes["ht_drain_cycle"]++; // emptied after every element was removed
      after.keys.clear();
      j = guarded([&] { im->ht_empty(); });
      break;
    case HT_COUNT: {
      if (!m.ht) { applicable = false; break; }
      size_t c = 0, sz = 0;
      j = guarded([&] { c = im->ht_count(); sz = im->ht_size(); });
      if (!j && (c != m.keys.size() || sz < c)) viol("ht_count", "count " + std::to_string(c) + " size " + std::to_string(sz) + ", model count " + std::to_string(m.keys.size()));
      break;
    }
    case HT_DELETE:
      if (!m.ht) { applicable = false; break; }
      after.ht = false; after.keys.clear();
      j = guarded([&] { im->ht_delete(); });
      break;
    case OS_CREATE_:
      if (m.os) { applicable = false; break; }
      after.os = true; after.fins.clear(); after.top.clear();
      j = guarded([&] { im->os_create(alloc, (size_t)op.a); });
      break;
    case OS_ADD_BYTE:
      if (!m.os) { applicable = false; break; }
      after.top.push_back((char)op.a);
      j = guarded([&] { im->os_add_byte((int)(unsigned char)op.a); });
      break;
    case OS_ADD_MEM:
      if (!m.os) { applicable = false; break; }
      after.top += op.bytes;
      j = guarded([&] { im->os_add_memory(op.bytes.data(), op.bytes.size()); });
      break;
    case OS_ADD_STR: {
      if (!m.os) { applicable = false; break; }
      // documented: the last byte of a non-empty top object is dropped (it is supposed to be the end marker)
      std::string s = op.bytes.substr(0, op.bytes.find('\0'));
      if (!after.top.empty()) after.top.pop_back();
      after.top += s;
      after.top.push_back('\0');
      j = guarded([&] { im->os_add_string(s.c_str()); });
      break;
    }
    case OS_EXPAND: {
      if (!m.os) { applicable = false; break; }
      std::string pat = fillpat((size_t)op.a, idx);
      after.top += pat;
      j = guarded([&] { im->os_expand((size_t)op.a); });
      if (!j && op.a) { char *b = nullptr; size_t len = 0; guarded([&] { b = (char *)im->os_begin(); len = im->os_length(); }); if (len >= (size_t)op.a) memcpy(b + len - (size_t)op.a, pat.data(), (size_t)op.a); }
      break;
    }
    case OS_SHORTEN:
      if (!m.os) { applicable = false; break; }
      if ((size_t)op.a > after.top.size()) after.top.clear(); else after.top.resize(after.top.size() - (size_t)op.a);
      j = guarded([&] { im->os_shorten((size_t)op.a); });
      break;
    case OS_NULLIFY:
      if (!m.os) { applicable = false; break; }
      after.top.clear();
      j = guarded([&] { im->os_nullify(); });
      break;
    case OS_FINISH: {
      if (!m.os) { applicable = false; break; }
      char *b = nullptr;
      guarded([&] { b = (char *)im->os_begin(); });
      after.fins.push_back({b, m.top});
      after.top.clear();
      j = guarded([&] { im->os_finish(); });
      if (after.fins.size() > 1) res.probes["os_several_finished_objects"]++;
      break;
    }
    case OS_EMPTY_:
      if (!m.os) { applicable = false; break; }
      after.fins.clear(); after.top.clear();
      j = guarded([&] { im->os_empty(); });
      break;
    case OS_DELETE_:
      if (!m.os) { applicable = false; break; }
      after.os = false; after.fins.clear(); after.top.clear();
      j = guarded([&] { im->os_delete(); });
      break;
    case VL_CREATE:
      if (m.vl) { applicable = false; break; }
      after.vl = true; after.v.clear();
      j = guarded([&] { im->vl_create(alloc, (size_t)op.a); });
      break;
    case VL_ADD_BYTE:
      if (!m.vl) { applicable = false; break; }
      after.v.push_back((char)op.a);
      j = guarded([&] { im->vl_add_byte((int)(unsigned char)op.a); });
      break;
    case VL_ADD_MEM:
      if (!m.vl) { applicable = false; break; }
      after.v += op.bytes;
      j = guarded([&] { im->vl_add_memory(op.bytes.data(), op.bytes.size()); });
      break;
    case VL_ADD_STR: {
      if (!m.vl) { applicable = false; break; }
      std::string s = op.bytes.substr(0, op.bytes.find('\0'));
      if (!after.v.empty()) after.v.pop_back();
      after.v += s;
      after.v.push_back('\0');
      j = guarded([&] { im->vl_add_string(s.c_str()); });
      break;
    }
    case VL_EXPAND: {
      if (!m.vl) { applicable = false; break; }
      std::string pat = fillpat((size_t)op.a, idx);
      after.v += pat;
      j = guarded([&] { im->vl_expand((size_t)op.a); });
      if (!j && op.a) { char *b = nullptr; size_t len = 0; guarded([&] { b = (char *)im->vl_begin(); len = im->vl_length(); }); if (len >= (size_t)op.a) memcpy(b + len - (size_t)op.a, pat.data(), (size_t)op.a); }
      break;
    }
    case VL_SHORTEN:
      if (!m.vl) { applicable = false; break; }
      if ((size_t)op.a > after.v.size()) after.v.clear(); else after.v.resize(after.v.size() - (size_t)op.a);
      j = guarded([&] { im->vl_shorten((size_t)op.a); });
      break;
    case VL_NULLIFY:
      if (!m.vl) { applicable = false; break; }
      after.v.clear();
      j = guarded([&] { im->vl_nullify(); });
      break;
    case VL_TAILOR:
      if (!m.vl) { applicable = false; break; }
      j = guarded([&] { im->vl_tailor(); });
      break;
    case VL_DELETE:
      if (!m.vl) { applicable = false; break; }
      after.vl = false; after.v.clear();
      j = guarded([&] { im->vl_delete(); });
      break;
    }
    OpCounters c = heap_end_op();
    g_backend = be; // the checks below still run library code (a lookup may expand the table)
    res.alloc_events += c.requests + c.frees + c.new_requests;
    if (c.hash_expands) res.probes["ht_expanded"]++;
    if (c.realloc_moves) res.probes["vlo_realloc_moved"]++;
    if (op.kind >= OS_ADD_BYTE && op.kind <= OS_EXPAND && c.requests) res.probes["os_new_segment"]++;
    HeapViolation hv;
    while (heap_take_violation(&hv)) viol(hv.kind.c_str(), hv.detail);
    std::string outcome = applicable ? (j ? "failed" : "done") : "noop";
    if (applicable) {
      if (j == 5 && c.fault_fired) {
        res.faults[std::string("alloc@") + kNames[op.kind]]++;
        // relaxed narrowly: contents as before the failed operation or as after it, never anything else
        bool create = op.kind == HT_CREATE || op.kind == OS_CREATE_ || op.kind == VL_CREATE;
        std::string w1, w2;
        if (create) m = before; // the container does not exist
        else if (check_all(before, &w1, op.kind)) m = before;
        else if (check_all(after, &w2, op.kind)) m = after;
        else if ((op.kind == OS_ADD_STR || op.kind == VL_ADD_STR) && ([&] {
                   // add_string first drops the end marker of the object, then asks for memory: a failed
                   // request leaves the object without that byte (a documented two-step operation)
                   Model mid = before;
                   if (op.kind == OS_ADD_STR && !mid.top.empty()) mid.top.pop_back();
                   if (op.kind == VL_ADD_STR && !mid.v.empty()) mid.v.pop_back();
                   std::string w3;
                   if (!check_all(mid, &w3, op.kind)) return false;
                   m = mid;
                   return true;
                 })()) { res.probes["add_string_failed_after_dropping_end_marker"]++; }
        else { viol("state_after_failed_op", "contents are neither those before nor those after the failed operation: " + w1 + " / " + w2); res.aborted = true; }
      } else if (j) {
        viol("unexpected_jump", "operation left by a jump without an injected failure");
        res.aborted = true;
      } else {
        m = after;
        std::string why;
        bool ok = check_ht(m, &why) && check_os(m, &why) && check_vl(m, &why);
        if (!ok) { viol(op.kind <= HT_DELETE ? "ht_contents" : op.kind <= OS_DELETE_ ? "os_contents" : "vlo_contents", why); res.aborted = true; }
      }
    }
    res.hash = fnv1a(std::to_string(idx) + kNames[op.kind] + outcome, res.hash);
    res.shape = fnv1a(std::string(kNames[op.kind]) + outcome + (m.ht ? "h" : "") + (m.os ? "o" : "") + (m.vl ? "v" : ""), res.shape);
  }

  void run() {
    heap_reset_run(plan.cfg);
    g_backend = be;
    alloc = yaep_alloc_new(vsim_malloc, vsim_calloc, vsim_realloc, vsim_free);
    yaep_alloc_seterr(alloc, alloc_error, nullptr);
    for (size_t i = 0; i < plan.ops.size() && !res.aborted; i++) run_op(plan.ops[i], (int)i);
    // tear down what is left (also checked by the heap registry)
    if (!res.aborted) {
      static const int tail[] = {HT_DELETE, OS_DELETE_, VL_DELETE};
      for (int k : tail) {
        COp o;
        o.kind = k;
        plan.ops.push_back(o);
        run_op(plan.ops.back(), (int)plan.ops.size() - 1);
      }
    }
    heap_begin_op(be, -2, OpFault());
    { LibEnter e; yaep_alloc_del(alloc); }
    g_in_lib = 0;
    heap_end_op();
    if (!res.aborted && res.faults.empty()) {
      size_t left = heap_live_internal(be, true);
      if (left) { cur = (int)plan.ops.size() - 1; if (cur < 0) cur = 0; res.viol.push_back({"leak", "END", std::to_string(left) + " blocks still allocated after every container was deleted", cur, (int)be}); }
    }
    heap_forget_all();
  }
};

CResult execute(const CPlan &p) {
  CResult res;
  for (int b = 0; b < 2 && !res.aborted; b++) {
    Runner r(p, (Backend)b, res);
    r.run();
  }
  return res;
}

// ---------------------------------------------------------------- generator
CPlan gen(uint64_t seed, bool failing) {
  Rng r(seed * 0xC2B2AE3D27D4EB4Full + 17);
  CPlan p;
  p.seed = seed;
  static const int knobw[] = {0, 1, 1, 2, 2, 3, 3, 4};
  p.cfg.knobs = knobw[r.below(8)];
  static const uint8_t pz[] = {0xAB, 0xCD, 0x5A, 0xFF, 0x01};
  p.cfg.poison = pz[r.below(5)];
  p.cfg.free_poison = r.chance(1, 2) ? 0xDD : 0xEE;
  p.cfg.pad = r.range(0, 3);
  p.cfg.quarantine = r.range(0, 16);
  p.cfg.realloc_mode = (int)r.below(3);
  p.cfg.salt = r.next();
  int focus = (int)r.below(4); // 0 all, 1 hash table, 2 object stack, 3 vlo
  int n = r.range(10, 200);
  int universe = r.chance(1, 3) ? 6 : r.chance(1, 2) ? 20 : 48;
  auto bytes = [&](int maxlen) { std::string s; int len = r.range(0, maxlen); for (int i = 0; i < len; i++) s.push_back((char)r.range(1, 255)); return s; };
  for (int i = 0; i < n; i++) {
    COp op;
    int which = focus == 0 ? (int)r.below(3) : (r.chance(4, 5) ? focus - 1 : (int)r.below(3));
    if (which == 0) {
      static const int w[] = {HT_CREATE, HT_INSERT, HT_INSERT, HT_INSERT, HT_INSERT, HT_FIND, HT_FIND, HT_REMOVE, HT_REMOVE, HT_REMOVE, HT_COUNT, HT_EMPTY, HT_DELETE};
      op.kind = w[r.below(13)];
      if ((op.kind == HT_EMPTY || op.kind == HT_DELETE) && !r.chance(1, 4)) op.kind = HT_INSERT;
      if (op.kind == HT_CREATE) { op.a = r.chance(1, 4) ? r.range(9, 300) : r.range(0, 8); op.b = (long)r.below(4); }
      else op.a = (long)r.below((uint64_t)universe);
    } else if (which == 1) {
      static const int w[] = {OS_CREATE_, OS_ADD_BYTE, OS_ADD_MEM, OS_ADD_MEM, OS_ADD_STR, OS_EXPAND, OS_SHORTEN, OS_NULLIFY, OS_FINISH, OS_FINISH, OS_FINISH, OS_EMPTY_, OS_DELETE_};
      op.kind = w[r.below(13)];
      if ((op.kind == OS_EMPTY_ || op.kind == OS_DELETE_) && !r.chance(1, 4)) op.kind = OS_ADD_MEM;
      if (op.kind == OS_CREATE_) op.a = r.range(0, 64);
      else if (op.kind == OS_ADD_BYTE) op.a = r.range(0, 255);
      else if (op.kind == OS_ADD_MEM || op.kind == OS_ADD_STR) op.bytes = bytes(r.chance(1, 6) ? 700 : 40);
      else if (op.kind == OS_EXPAND) op.a = r.chance(1, 8) ? r.range(100, 1200) : r.range(0, 40);
      else if (op.kind == OS_SHORTEN) op.a = r.range(0, 30);
    } else {
      static const int w[] = {VL_CREATE, VL_ADD_BYTE, VL_ADD_MEM, VL_ADD_MEM, VL_ADD_STR, VL_EXPAND, VL_SHORTEN, VL_SHORTEN, VL_NULLIFY, VL_TAILOR, VL_TAILOR, VL_DELETE};
      op.kind = w[r.below(12)];
      if (op.kind == VL_DELETE && !r.chance(1, 4)) op.kind = VL_ADD_MEM;
      if (op.kind == VL_CREATE) op.a = r.range(0, 64);
      else if (op.kind == VL_ADD_BYTE) op.a = r.range(0, 255);
      else if (op.kind == VL_ADD_MEM || op.kind == VL_ADD_STR) op.bytes = bytes(r.chance(1, 6) ? 700 : 40);
      else if (op.kind == VL_EXPAND) op.a = r.chance(1, 8) ? r.range(100, 1200) : r.range(0, 40);
      else if (op.kind == VL_SHORTEN) op.a = r.range(0, 30);
    }
    if (failing && r.chance(1, 6)) op.failk = r.range(1, 2);
    p.ops.push_back(op);
  }
  // drain cycles: a small table is filled with fresh keys, every element is removed again, the table is emptied,
  // and the next round uses other keys -- so that whatever removals leave behind in the entries accumulates
  if ((focus == 0 || focus == 1) && r.chance(1, 4)) {
    size_t ph = p.ops.size();
    COp o; o.kind = HT_DELETE; p.ops.push_back(o);
    o = COp(); o.kind = HT_CREATE; o.a = r.range(0, 12); o.b = (long)r.below(4); p.ops.push_back(o);
    int rounds = r.range(2, 9), base = (int)r.below(48);
    bool with_empty = !r.chance(1, 5);
    for (int k = 0; k < rounds; k++) {
      int m = r.range(2, 9);
      for (int i = 0; i < m; i++) { o = COp(); o.kind = HT_INSERT; o.a = (base + i) % 48; p.ops.push_back(o); }
      if (r.chance(1, 2)) { o = COp(); o.kind = HT_FIND; o.a = (long)r.below(48); p.ops.push_back(o); }
      for (int i = 0; i < m; i++) { o = COp(); o.kind = HT_REMOVE; o.a = (base + (r.chance(1, 2) ? i : m - 1 - i)) % 48; p.ops.push_back(o); }
      if (with_empty || r.chance(1, 2)) { o = COp(); o.kind = HT_EMPTY; p.ops.push_back(o); }
      if (r.chance(1, 3)) { o = COp(); o.kind = HT_COUNT; p.ops.push_back(o); }
      base = (base + m + (int)r.below(3)) % 48;
    }
    if (failing) for (size_t i = ph; i < p.ops.size(); i++) if (r.chance(1, 12)) p.ops[i].failk = r.range(1, 2);
  }
  // empty cycles of the object stack: finished objects in the first segment, a top object that moves to later
  // segments and outgrows them, then OS_EMPTY and appends of sizes around what the first segment holds
  if ((focus == 0 || focus == 2) && r.chance(1, 4)) {
    size_t ph = p.ops.size();
    COp o; o.kind = OS_DELETE_; p.ops.push_back(o);
    o = COp(); o.kind = OS_CREATE_; o.a = r.range(0, 64); p.ops.push_back(o);
    int rounds = r.range(2, 6);
    for (int k = 0; k < rounds; k++) {
      int small = r.range(0, 3);
      for (int i = 0; i < small; i++) {
        o = COp(); o.kind = OS_ADD_MEM; o.bytes = bytes(12); p.ops.push_back(o);
        o = COp(); o.kind = OS_FINISH; p.ops.push_back(o);
      }
      int grow = r.range(1, 4);
      for (int i = 0; i < grow; i++) {
        o = COp();
        if (r.chance(1, 3)) { o.kind = OS_EXPAND; o.a = r.range(20, 900); }
        else { o.kind = r.chance(1, 4) ? OS_ADD_STR : OS_ADD_MEM; o.bytes = bytes(r.chance(1, 2) ? 700 : 90); }
        p.ops.push_back(o);
      }
      if (r.chance(1, 3)) { o = COp(); o.kind = OS_FINISH; p.ops.push_back(o); }
      o = COp(); o.kind = OS_EMPTY_; p.ops.push_back(o);
      int after = r.range(1, 5);
      for (int i = 0; i < after; i++) {
        o = COp(); o.kind = r.chance(1, 5) ? OS_ADD_BYTE : OS_ADD_MEM; o.a = r.range(0, 255); o.bytes = bytes(r.chance(1, 3) ? 300 : 48); p.ops.push_back(o);
        if (r.chance(1, 2)) { o = COp(); o.kind = OS_FINISH; p.ops.push_back(o); }
      }
    }
    if (failing) for (size_t i = ph; i < p.ops.size(); i++) if (r.chance(1, 12)) p.ops[i].failk = r.range(1, 2);
  }
  // make sure the containers exist early
  COp c; c.kind = HT_CREATE; c.a = r.range(0, 8); c.b = (long)r.below(4);
  p.ops.insert(p.ops.begin(), c);
  c = COp(); c.kind = OS_CREATE_; c.a = r.range(0, 64);
  p.ops.insert(p.ops.begin(), c);
  c = COp(); c.kind = VL_CREATE; c.a = r.range(0, 64);
  p.ops.insert(p.ops.begin(), c);
  return p;
}

void arm_cpu_guard(int seconds) { // hang guard: user CPU time per run, SIGVTALRM terminates the process
  struct itimerval it;
  memset(&it, 0, sizeof it);
  it.it_value.tv_sec = seconds;
  setitimer(ITIMER_VIRTUAL, &it, nullptr);
}

std::string read_file(const std::string &path) { std::ifstream f(path); std::stringstream ss; ss << f.rdbuf(); return ss.str(); }

void print_v(uint64_t seed, const CViolation &v) {
  printf("V seed=%llu prop=C19 kind=%s site=%s probe=0 op=%d be=%d detail=%s\n", (unsigned long long)seed, v.kind.c_str(), v.site.c_str(), v.op, v.be, esc(v.detail).c_str());
}

std::string self_exe() { char b[4096]; ssize_t n = readlink("/proc/self/exe", b, sizeof b - 1); if (n <= 0) return "contsim"; b[n] = 0; return b; }

std::vector<std::string> classify_text(const std::string &text, std::vector<std::string> *details) {
  std::vector<std::string> classes;
  char tmpl[] = "/tmp/contsim-XXXXXX";
  int tfd = mkstemp(tmpl);
  if (write(tfd, text.data(), text.size()) < 0) {}
  close(tfd);
  int po[2], pe[2];
  if (pipe(po) || pipe(pe)) exit(2);
  fflush(stdout);
  pid_t c = fork();
  if (c == 0) {
    dup2(po[1], 1); dup2(pe[1], 2); close(po[0]); close(pe[0]);
    std::string exe = self_exe();
    execl(exe.c_str(), exe.c_str(), "--replay", tmpl, "--announce", (char *)nullptr);
    _exit(99);
  }
  close(po[1]); close(pe[1]);
  std::string out, err;
  char b[65536];
  ssize_t n;
  // the child writes little to stdout; read stderr first until EOF, then stdout
  fd_set rs;
  bool o1 = true, o2 = true;
  while (o1 || o2) {
    FD_ZERO(&rs);
    int mx = 0;
    if (o1) { FD_SET(po[0], &rs); mx = po[0]; }
    if (o2) { FD_SET(pe[0], &rs); if (pe[0] > mx) mx = pe[0]; }
    if (select(mx + 1, &rs, nullptr, nullptr, nullptr) < 0) break;
    if (o1 && FD_ISSET(po[0], &rs)) { n = read(po[0], b, sizeof b); if (n <= 0) { o1 = false; close(po[0]); } else out.append(b, (size_t)n); }
    if (o2 && FD_ISSET(pe[0], &rs)) { n = read(pe[0], b, sizeof b); if (n <= 0) { o2 = false; close(pe[0]); } else if (err.size() < (16u << 20)) err.append(b, (size_t)n); }
  }
  int st = 0;
  waitpid(c, &st, 0);
  unlink(tmpl);
  if (WIFEXITED(st) && (WEXITSTATUS(st) == 0 || WEXITSTATUS(st) == 1)) {
    std::istringstream is(out);
    std::string line;
    while (std::getline(is, line))
      if (line.compare(0, 2, "V ") == 0) {
        std::string kind, site;
        std::istringstream ls(line);
        std::string w;
        while (ls >> w) { if (w.compare(0, 5, "kind=") == 0) kind = w.substr(5); if (w.compare(0, 5, "site=") == 0) site = w.substr(5); }
        classes.push_back("C19/" + kind + "/" + site);
        details->push_back(line);
      }
    return classes;
  }
  std::istringstream is(err);
  std::string line, opk = "?", kind, first;
  while (std::getline(is, line)) {
    if (line.compare(0, 8, "OPBEGIN ") == 0 && kind.empty()) { char k[32]; int i; if (sscanf(line.c_str(), "OPBEGIN %d %31s", &i, k) == 2) opk = k; continue; }
    size_t p;
    if (kind.empty() && (p = line.find("ERROR: AddressSanitizer: ")) != std::string::npos) { std::string rest = line.substr(p + 25); kind = "asan-" + rest.substr(0, rest.find(' ')); first = line; }
    else if (kind.empty() && line.find("runtime error: ") != std::string::npos) { kind = "ubsan"; first = line; }
    else if (kind.empty() && line.find("Assertion `") != std::string::npos) { kind = "assertion"; first = line; }
  }
  if (kind.empty()) { char kb[32]; snprintf(kb, sizeof kb, WIFSIGNALED(st) ? "signal-%d" : "exit-%d", WIFSIGNALED(st) ? WTERMSIG(st) : WEXITSTATUS(st)); kind = kb; }
  classes.push_back("C19/" + kind + "/" + opk);
  details->push_back("crash during " + opk + ": " + first);
  return classes;
}

bool has_class(const CPlan &p, const std::string &cls, long *budget) {
  // minimisation also has a wall-clock limit (a violation that is a hang costs a full time-out per attempt);
  // the limit only decides how small the replay file gets, never the verdict
  static time_t t0 = time(nullptr);
  if (time(nullptr) - t0 > 150) *budget = 0;
  if (*budget <= 0) return false;
  (*budget)--;
  std::vector<std::string> d;
  for (auto &c : classify_text(cplan_text(p), &d)) if (c == cls) return true;
  return false;
}

} // namespace

int main(int argc, char **argv) {
  for (int k = 0; k < 48; k++) g_keys[k].k = k;
  uint64_t from = 0, to = 0;
  std::string mode = "cont";
  bool shapes = false;
  for (int i = 1; i < argc; i++) {
    std::string a = argv[i];
    if (a == "--mode" && i + 1 < argc) mode = argv[++i];
    else if (a == "--focus" && i + 1 < argc) ++i;
    else if (a == "--shapes") shapes = true;
    else if (a == "--seeds" && i + 1 < argc) { std::string s = argv[++i]; size_t c = s.find(':'); from = strtoull(s.c_str(), nullptr, 10); to = c == std::string::npos ? from + 1 : strtoull(s.c_str() + c + 1, nullptr, 10); }
    else if (a == "--emit-plan" && i + 1 < argc) {
      for (int j = 1; j < argc; j++) if (std::string(argv[j]) == "--mode" && j + 1 < argc) mode = argv[j + 1];
      fputs(cplan_text(gen(strtoull(argv[i + 1], nullptr, 10), mode == "contfail")).c_str(), stdout);
      return 0;
    } else if (a == "--replay" && i + 1 < argc) {
      CPlan p;
      if (!cplan_parse(read_file(argv[i + 1]), &p)) { fprintf(stderr, "bad plan\n"); return 2; }
      for (int j = 1; j < argc; j++) if (std::string(argv[j]) == "--announce") g_announce = 2;
      arm_cpu_guard(30);
      CResult r = execute(p);
      printf("HASH %016llx\n", (unsigned long long)r.hash);
      for (auto &v : r.viol) print_v(p.seed, v);
      return r.viol.empty() ? 0 : 1;
    } else if (a == "--classify" && i + 1 < argc) {
      std::vector<std::string> d;
      auto cl = classify_text(read_file(argv[i + 1]), &d);
      for (size_t k = 0; k < cl.size(); k++) printf("CLASS %s | %s\n", cl[k].c_str(), d[k].c_str());
      printf("HASH %s\n", cl.empty() ? "clean" : "viol");
      return cl.empty() ? 0 : 1;
    } else if (a == "--minimize" && i + 3 < argc) {
      CPlan p;
      if (!cplan_parse(read_file(argv[i + 1]), &p)) return 2;
      std::string cls = argv[i + 3];
      long budget = 400;
      if (!has_class(p, cls, &budget)) { printf("MINIMIZE not-reproduced\n"); return 2; }
      size_t n = 2;
      while (p.ops.size() >= 2 && budget > 0) {
        size_t len = p.ops.size(), chunk = (len + n - 1) / n;
        bool red = false;
        for (size_t s = 0; s < len && budget > 0; s += chunk) {
          CPlan q = p;
          q.ops.erase(q.ops.begin() + (long)s, q.ops.begin() + (long)std::min(len, s + chunk));
          if (!q.ops.empty() && has_class(q, cls, &budget)) { p = q; n = std::max<size_t>(n - 1, 2); red = true; break; }
        }
        if (!red) { if (n >= len) break; n = std::min(len, n * 2); }
      }
      for (size_t k = 0; k < p.ops.size() && budget > 0; k++) { // shrink arguments
        if (p.ops[k].failk) { CPlan q = p; q.ops[k].failk = 0; if (has_class(q, cls, &budget)) p = q; }
        if (p.ops[k].bytes.size() > 1) { CPlan q = p; q.ops[k].bytes = q.ops[k].bytes.substr(0, q.ops[k].bytes.size() / 2); if (has_class(q, cls, &budget)) p = q; }
      }
      { CPlan q = p; q.cfg.knobs = 0; q.cfg.pad = 0; q.cfg.realloc_mode = 0; if (budget > 0 && has_class(q, cls, &budget)) p = q; }
      std::ofstream f(argv[i + 2]);
      f << "# minimised replay for violation class " << cls << "\n" << cplan_text(p);
      printf("MINIMIZED ops=%zu out=%s\n", p.ops.size(), argv[i + 2]);
      return 0;
    }
  }
  if (to <= from) { fprintf(stderr, "usage: contsim --mode cont|contfail --seeds A:B | --emit-plan S | --replay F | --classify F | --minimize F OUT CLASS\n"); return 2; }
  std::map<std::string, long> probes, faults;
  long runs = 0, clean = 0, ops = 0, events = 0;
  for (uint64_t s = from; s < to; s++) {
    printf("RUN %llu\n", (unsigned long long)s);
    fflush(stdout);
    CPlan p = gen(s, mode == "contfail");
    arm_cpu_guard(30);
    CResult r = execute(p);
    runs++;
    ops += r.ops;
    events += r.alloc_events;
    for (auto &kv : r.probes) probes[kv.first] += kv.second;
    for (auto &kv : r.faults) faults[kv.first] += kv.second;
    if (r.viol.empty()) { printf("OK %llu %016llx\n", (unsigned long long)s, (unsigned long long)r.hash); clean++; }
    else { printf("VIOL %llu %016llx gating=%zu\n", (unsigned long long)s, (unsigned long long)r.hash, r.viol.size()); for (auto &v : r.viol) print_v(s, v); }
    if (shapes) printf("SHAPE %llu %016llx ops=%zu sample=%s\n", (unsigned long long)s, (unsigned long long)r.shape, p.ops.size(), runs <= 1 ? esc(cplan_text(p).substr(0, 1200)).c_str() : "-");
    fflush(stdout);
  }
  const Totals &t = heap_totals();
  printf("STATS {\"runs\":%ld,\"clean\":%ld,\"ops\":%ld,\"alloc_events\":%ld,\"probes\":{", runs, clean, ops, events);
  bool first = true;
  for (auto &kv : probes) { printf("%s\"%s\":%ld", first ? "" : ",", kv.first.c_str(), kv.second); first = false; }
  printf("},\"faults\":{");
  first = true;
  for (auto &kv : faults) { printf("%s\"%s\":%ld", first ? "" : ",", kv.first.c_str(), kv.second); first = false; }
  printf("},\"heap\":{\"allocs\":%ld,\"frees\":%ld,\"realloc_moves\":%ld,\"faults_alloc\":%ld,\"hash_expands\":%ld,\"steps\":%ld}}\n", t.allocs, t.frees, t.realloc_moves,
         t.faults_alloc, t.hash_expands, t.steps);
  return 0;
}
