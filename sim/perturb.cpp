// C09: one item (grammar, result-selecting flags, input) parsed under many lookahead levels, debug levels and
// simulator-owned internal choices (goto-cache veto, knob presets, realloc policy, debug sink) inside one plan;
// the executor's group check demands identical outcomes and hook H5 checks every accepted cache hit
// (DESIGN.md §5 C09).
#include "exec.h"
#include <cstdio>
#include <cstdlib>
#include <cstring>
#include <fstream>
#include <sstream>

namespace sim {

namespace {

const GrammarSpec *hand(const char *tag) {
  for (auto &g : handwritten_good()) if (g.tag == tag) return &g;
  return nullptr;
}

std::vector<int> chars(const std::string &s) { std::vector<int> v; for (unsigned char c : s) v.push_back(c); return v; }

// long inputs with many repeated fragments: the same (set, terminal, lookahead) triple recurs with equal and
// with different origin sets
std::vector<int> etf_input(Rng &r, int max_tokens, bool with_errors) {
  static const char *frags[] = {"a", "a*a", "(a+a)", "(a*a+a)", "((a))", "a*(a+a*a)", "(a)*(a)", "a*a*a"};
  std::vector<std::string> block;
  int bl = r.range(2, 7);
  for (int i = 0; i < bl; i++) block.push_back(frags[r.below(8)]);
  std::string s;
  int depth = 0;
  while ((int)s.size() < max_tokens) {
    for (auto &f : block) {
      if (!s.empty() && s.back() != '(') s += r.chance(3, 4) ? "+" : "*";
      if (r.chance(1, 12) && depth < 6) { s += "("; depth++; }
      s += r.chance(1, 10) ? frags[r.below(8)] : f.c_str();
      if (depth > 0 && r.chance(1, 10)) { s += ")"; depth--; }
    }
  }
  while (depth-- > 0) s += ")";
  if (with_errors) {
    int ne = r.range(1, 3);
    for (int i = 0; i < ne && !s.empty(); i++) {
      size_t pos = (size_t)r.below(s.size());
      static const char *junk[] = {"+", ")", "(", "*", "a"};
      if (r.chance(1, 2)) s.insert(pos, junk[r.below(5)]);
      else s.erase(pos, 1);
    }
  }
  return chars(s);
}

std::vector<int> stmts_input(Rng &r, int max_tokens) {
  std::string s;
  while ((int)s.size() < max_tokens) {
    int k = (int)r.below(10);
    if (k < 7) s += "i;";
    else if (k == 7) s += "ii;";
    else if (k == 8) s += ";";
    else s += "i;i";
  }
  return chars(s);
}

struct Variant { int la, dbg, knobs, cache_skip, selfcheck, realloc_mode, sink; };

Plan build(Rng &r, uint64_t seed, const GrammarSpec &g, const std::vector<int> &input, int one, int cost, int rec, int match, bool heavy) {
  Plan p;
  p.seed = seed;
  p.mode = "perturb";
  p.cfg.poison = r.chance(1, 2) ? 0xAB : 0x5A;
  p.cfg.pad = r.range(0, 3);
  p.cfg.quarantine = r.range(0, 16);
  p.cfg.salt = r.next();
  p.backends = r.chance(1, 4) ? 3 : 1;
  p.grammars.push_back(g);
  p.inputs.push_back(input);
  std::vector<Variant> vs;
  vs.push_back({0, 0, 0, 256, 0, 0, 0}); // reference: no lookahead, no output, cache switched off, shipped sizes
  static const int dbgs_light[] = {1, 2, 3, 4, 5, 6, -1};
  static const int dbgs_heavy[] = {1, 2, -1};
  for (int la = 0; la <= 2; la++)
    for (int d = 0; d < 2; d++) {
      Variant v;
      v.la = la;
      v.dbg = d == 0 ? 0 : (heavy ? dbgs_heavy[r.below(3)] : dbgs_light[r.below(7)]);
      v.knobs = (int)r.below((uint64_t)kNumKnobs);
      static const int cs[] = {0, 0, 0, 16, 128};
      v.cache_skip = cs[r.below(5)];
      v.selfcheck = r.chance(3, 4) ? 1 : 0;
      v.realloc_mode = (int)r.below(3);
      v.sink = v.dbg ? (int)r.below(3) : 0;
      vs.push_back(v);
    }
  vs.push_back({-3, 0, (int)r.below((uint64_t)kNumKnobs), 0, 1, 0, 0});
  vs.push_back({7, heavy ? 1 : 3, (int)r.below((uint64_t)kNumKnobs), 16, 1, 1, 0});
  // seeded order, reference somewhere in the middle as well
  for (size_t i = vs.size() - 1; i > 0; i--) std::swap(vs[i], vs[(size_t)r.below(i + 1)]);
  for (auto &v : vs) {
    Op c; c.task = 1; c.kind = OP_CONFIG;
    c.c_knobs = v.knobs; c.c_cache_skip = v.cache_skip; c.c_selfcheck = v.selfcheck; c.c_realloc = v.realloc_mode; c.c_sink = v.sink;
    p.ops.push_back(c);
    Op cr; cr.task = 1; cr.kind = OP_CREATE;
    p.ops.push_back(cr);
    auto set = [&](Setter s, int val) { Op o; o.task = 1; o.kind = OP_SET; o.setter = s; o.value = val; o.obj = 0; p.ops.push_back(o); };
    if (v.la != 1) set(S_LOOKAHEAD, v.la);
    if (v.dbg != 0) set(S_DEBUG, v.dbg);
    if (one != 1) set(S_ONE_PARSE, one);
    if (cost != 0) set(S_COST, cost);
    if (rec != 1) set(S_RECOVERY, rec);
    if (match != 3) set(S_MATCH, match);
    Op d; d.task = 1; d.kind = OP_DEFINE; d.grammar = 0; d.obj = 0;
    p.ops.push_back(d);
    Op pa; pa.task = 1; pa.kind = OP_PARSE; pa.input = 0; pa.obj = 0; pa.alloc = AM_CUSTOM_FREE;
    p.ops.push_back(pa);
    if (r.chance(1, 3)) p.ops.push_back(pa); // a second parse on the same object (second parse at lookahead 2 included)
    Op fg; fg.task = 1; fg.kind = OP_FREE_GRAMMAR; fg.obj = 0;
    p.ops.push_back(fg);
    Op ft; ft.task = 1; ft.kind = OP_FREE_TREE; ft.tree = 0;
    p.ops.push_back(ft);
    p.ops.push_back(ft);
  }
  return p;
}

} // namespace

Plan gen_perturb_plan(uint64_t seed) {
  Rng r(seed * 0xA24BAED4963EE407ull + 99);
  const Pool &pool = pool_for_seed(seed);
  int kind = (int)r.below(20);
  int maxtok = getenv("VSIM_PERTURB_MAXTOK") ? atoi(getenv("VSIM_PERTURB_MAXTOK")) : 600;
  if (kind < 7) { // long repetitive sentences / non-sentences of the expression grammar
    int n = r.chance(1, 4) ? r.range(maxtok / 2, maxtok) : r.range(10, 120);
    bool err = r.chance(1, 4);
    return build(r, seed, *hand("suite-ETF"), etf_input(r, n, err), 1, 0, r.chance(9, 10) ? 1 : 0, r.chance(3, 4) ? 3 : r.range(1, 5), n > 150);
  }
  if (kind < 9) { // statement lists with error rules: recovery runs over cached sets
    int n = r.chance(1, 3) ? r.range(100, maxtok / 2) : r.range(6, 60);
    return build(r, seed, *hand("err-stmts"), stmts_input(r, n), 1, 0, 1, r.range(1, 4), n > 150);
  }
  if (kind < 11) { // ambiguous, all parses / cost: short inputs (tree sets are enumerated)
    const char *tags[] = {"ambig-E", "cost-E", "alt-deep", "cost-ABC", "nullable", "hidden-lr"};
    const GrammarSpec *g = hand(tags[r.below(6)]);
    std::string s;
    if (g->tag == "ambig-E" || g->tag == "cost-E") { int n = r.range(1, 5); s = "a"; for (int i = 0; i < n; i++) { s += r.chance(1, 2) ? "+" : "*"; s += "a"; } if (r.chance(1, 5)) s += "+"; }
    else if (g->tag == "alt-deep") s = std::string((size_t)r.range(1, 7), 'a');
    else if (g->tag == "cost-ABC") s = r.chance(3, 4) ? "ab" : "abb";
    else if (g->tag == "nullable") { static const char *x[] = {"abc", "", "ac", "b", "cb", "abcc"}; s = x[r.below(6)]; }
    else { static const char *x[] = {"x", "axb", "aaxbb", "xb", "axbb", "aaaxbbb"}; s = x[r.below(6)]; }
    return build(r, seed, *g, chars(s), (int)r.below(2), (int)r.below(2), 1, 3, false);
  }
  if (kind < 13) { // ambiguous grammar, one parse requested, long input: the single tree must not depend on the level
    int n = r.range(5, 40);
    std::string s = "a";
    for (int i = 0; i < n; i++) { s += r.chance(1, 2) ? "+" : "*"; s += "a"; }
    return build(r, seed, *hand(r.chance(1, 2) ? "ambig-E" : "cost-E"), chars(s), 1, (int)r.below(2), 1, 3, false);
  }
  // generated grammars of the pool with their sentences and mutated non-sentences
  size_t gi = (size_t)r.below(pool.good.size());
  const auto &ins = pool.inputs[gi];
  std::vector<int> in = ins[(size_t)r.below(ins.size())];
  if (pool.good[gi].tag.compare(0, 4, "fam-") == 0 && r.chance(2, 3)) { // longer sentences of the idiom families
    in = gen_sentence(r, pool.good[gi], r.range(10, 90));
    if (r.chance(1, 5) && !in.empty()) in.erase(in.begin() + (long)r.below(in.size()));
  }
  // repeat the input to make it longer where the grammar allows it (it is simply another input otherwise)
  if (r.chance(1, 3)) { std::vector<int> rep; int k = r.range(2, 4); for (int i = 0; i < k; i++) rep.insert(rep.end(), in.begin(), in.end()); if (rep.size() <= 40) in = rep; }
  int one = r.chance(2, 3) ? 1 : 0, cost = r.chance(1, 4) ? 1 : 0;
  if ((!one || cost) && in.size() > 10) in.resize(10);
  if (in.size() > 90) in.resize(90);
  return build(r, seed, pool.good[gi], in, one, cost, r.chance(5, 6) ? 1 : 0, r.chance(2, 3) ? 3 : r.range(0, 4), false);
}

// The 200-rule ANSI C grammar shipped with the tests (description extracted from test/C/test41.c by bin/build)
// and the token stream of test/test.i (flex lexer test/ansic.l), cut and repeated by seed.
Plan gen_ansic_plan(uint64_t seed) {
  Rng r(seed * 0x9FB21C651E98DF25ull + 5);
  const char *dp = getenv("VSIM_ANSIC_DESC"), *tp = getenv("VSIM_ANSIC_TOKS");
  Plan empty;
  if (!dp || !tp) return empty;
  std::ifstream df(dp), tf(tp);
  std::stringstream ds;
  ds << df.rdbuf();
  GrammarSpec g;
  g.text = true;
  g.tag = "ansic";
  g.desc = ds.str();
  g.strict = 1;
  g.expect = 0;
  std::vector<int> toks;
  int c;
  while (tf >> c) toks.push_back(c);
  std::set<int> codes(toks.begin(), toks.end());
  // declared codes: every "NAME = number" of the TERM section and every character literal
  {
    const std::string &d = g.desc;
    for (size_t i = 0; i + 2 < d.size(); i++) {
      if (d[i] == '\'' && d[i + 2] == '\'') codes.insert((unsigned char)d[i + 1]);
      if (d[i] == '=') { size_t j = i + 1; while (j < d.size() && (d[j] == ' ' || d[j] == '\t')) j++; if (j < d.size() && isdigit((unsigned char)d[j])) codes.insert(atoi(d.c_str() + j)); }
    }
  }
  g.codes.assign(codes.begin(), codes.end());
  // top-level declarations end with ';' or '}' at nesting depth 0: cut the stream there
  std::vector<size_t> cuts;
  int depth = 0;
  for (size_t i = 0; i < toks.size(); i++) {
    if (toks[i] == '{') depth++;
    if (toks[i] == '}') depth--;
    if (depth == 0 && (toks[i] == ';' || toks[i] == '}')) cuts.push_back(i + 1);
  }
  size_t maxtok = getenv("VSIM_ANSIC_MAXTOK") ? (size_t)atol(getenv("VSIM_ANSIC_MAXTOK")) : toks.size();
  std::vector<int> in;
  int style = (int)r.below(8);
  if (style >= 3 && cuts.size() > 8) {
    // a short unit (a few consecutive top-level declarations), usually with one token deleted or doubled: error
    // recovery in the middle of a parse whose goto cache is warm
    for (int tries = 0; tries < 20 && in.empty(); tries++) {
      size_t k = (size_t)r.below(cuts.size() - 1);
      size_t e = std::min(cuts.size() - 1, k + (size_t)r.range(1, 5));
      if (cuts[e] - cuts[k] <= 800 && cuts[e] - cuts[k] >= 8) in.assign(toks.begin() + (long)cuts[k], toks.begin() + (long)cuts[e]);
    }
    if (!in.empty() && r.chance(5, 6)) {
      int edits = r.range(1, 3);
      for (int i = 0; i < edits && in.size() > 2; i++) {
        size_t pos = (size_t)r.below(in.size());
        if (r.chance(2, 3)) in.erase(in.begin() + (long)pos); else in.insert(in.begin() + (long)pos, in[pos]);
      }
    }
    return build(r, seed, g, in, 1, 0, 1, r.chance(3, 4) ? 3 : r.range(1, 5), false);
  }
  if (style == 0 || cuts.empty()) { // a prefix of the file ending at a top-level boundary
    size_t want = (size_t)r.range(200, (int)std::min(maxtok, toks.size()));
    size_t end = 0;
    for (size_t cpos : cuts) if (cpos <= want) end = cpos;
    in.assign(toks.begin(), toks.begin() + (long)end);
  } else { // generated repetitive translation unit: seeded top-level declarations, each repeated several times
    while (in.size() < std::min(maxtok, (size_t)r.range(500, 6000))) {
      size_t k = (size_t)r.below(cuts.size() - 1);
      size_t a = cuts[k], b = cuts[k + 1];
      if (b - a > 400) continue;
      int rep = r.range(1, 6);
      for (int i = 0; i < rep; i++) in.insert(in.end(), toks.begin() + (long)a, toks.begin() + (long)b);
    }
  }
  if (style == 2 && !in.empty() && r.chance(1, 2)) in.erase(in.begin() + (long)r.below(in.size())); // one syntax error
  return build(r, seed, g, in, 1, 0, 1, 3, true);
}

// A front end that keeps one grammar object for the ANSI C grammar and parses many different translation units
// with it (C14: each parse must equal the parse of a fresh object; hundreds of lookahead contexts, large tables).
Plan gen_ansic_hist_plan(uint64_t seed) {
  Rng r(seed * 0xD6E8FEB86659FD93ull + 11);
  const char *dp = getenv("VSIM_ANSIC_DESC"), *tp = getenv("VSIM_ANSIC_TOKS");
  Plan p;
  if (!dp || !tp) return p;
  static std::string desc;
  static std::vector<int> toks;
  static std::vector<size_t> cuts;
  static std::vector<int> codes;
  if (desc.empty()) {
    std::ifstream df(dp), tf(tp);
    std::stringstream ds;
    ds << df.rdbuf();
    desc = ds.str();
    int c;
    while (tf >> c) toks.push_back(c);
    std::set<int> cs(toks.begin(), toks.end());
    for (size_t i = 0; i + 2 < desc.size(); i++) {
      if (desc[i] == '\'' && desc[i + 2] == '\'') cs.insert((unsigned char)desc[i + 1]);
      if (desc[i] == '=') { size_t j = i + 1; while (j < desc.size() && (desc[j] == ' ' || desc[j] == '\t')) j++; if (j < desc.size() && isdigit((unsigned char)desc[j])) cs.insert(atoi(desc.c_str() + j)); }
    }
    codes.assign(cs.begin(), cs.end());
    int depth = 0;
    cuts.push_back(0);
    for (size_t i = 0; i < toks.size(); i++) {
      if (toks[i] == '{') depth++;
      if (toks[i] == '}') depth--;
      if (depth == 0 && (toks[i] == ';' || toks[i] == '}')) cuts.push_back(i + 1);
    }
  }
  p.seed = seed;
  p.mode = "ansichist";
  static const int knobw[] = {0, 0, 1, 2, 3, 4};
  p.cfg.knobs = knobw[r.below(6)];
  p.cfg.poison = r.chance(1, 2) ? 0xAB : 0x5A;
  p.cfg.pad = r.range(0, 3);
  p.cfg.quarantine = r.range(0, 16);
  p.cfg.realloc_mode = (int)r.below(3);
  p.cfg.cache_skip = r.chance(2, 3) ? 0 : 16;
  p.cfg.selfcheck = r.chance(1, 3) ? 1 : 0;
  p.cfg.salt = r.next();
  p.backends = r.chance(1, 3) ? 3 : 1;
  GrammarSpec g;
  g.text = true;
  g.tag = "ansic";
  g.desc = desc;
  g.strict = 1;
  g.expect = 0;
  g.codes = codes;
  p.grammars.push_back(g);
  auto mk = [](OpKind k) { Op o; o.task = 1; o.kind = k; return o; };
  p.ops.push_back(mk(OP_CREATE));
  { Op o = mk(OP_SET); o.setter = S_LOOKAHEAD; o.value = (int)r.below(3); p.ops.push_back(o); }
  { Op o = mk(OP_DEFINE); o.grammar = 0; p.ops.push_back(o); }
  int n = r.range(3, 6);
  for (int i = 0; i < n; i++) {
    // a unit = a few consecutive top-level declarations starting anywhere in the file
    std::vector<int> in;
    for (int tries = 0; tries < 20 && in.empty(); tries++) {
      size_t k = (size_t)r.below(cuts.size() - 1);
      size_t e = std::min(cuts.size() - 1, k + (size_t)r.range(1, 4));
      if (cuts[e] - cuts[k] <= 400) in.assign(toks.begin() + (long)cuts[k], toks.begin() + (long)cuts[e]);
    }
    if (r.chance(1, 6) && !in.empty()) in.erase(in.begin() + (long)r.below(in.size()));
    p.inputs.push_back(in);
    Op o = mk(OP_PARSE);
    o.input = i;
    o.alloc = r.chance(2, 3) ? AM_CUSTOM_FREE : AM_DEFAULT;
    p.ops.push_back(o);
    if (r.chance(1, 4)) { Op s2 = mk(OP_SET); s2.setter = S_LOOKAHEAD; s2.value = (int)r.below(3); p.ops.push_back(s2); }
    if (r.chance(1, 8)) { Op d = mk(OP_DEFINE); d.grammar = 0; p.ops.push_back(d); }
  }
  p.ops.push_back(mk(OP_FREE_GRAMMAR));
  for (int i = 0; i < n; i++) { Op f = mk(OP_FREE_TREE); f.tree = 0; p.ops.push_back(f); }
  return p;
}

int perturb_main(int, char **) { return 2; }

} // namespace sim
