// C09 perturbation mode (filled in below)
#include "exec.h"
namespace sim {
Plan gen_perturb_plan(uint64_t seed) { return gen_hist_plan(seed, false); }
int perturb_main(int, char **) { return 2; }
}
