/* Force-included when compiling /repo/src/allocate.c for the simulator:
   every libc heap call of the library's allocator layer goes to the
   simulated heap (kind INTERNAL).  No source change in /repo is needed.  */
#ifndef VSIM_RENAME_INT_H
#define VSIM_RENAME_INT_H
#include <stdlib.h>
#include <stdio.h>
#include <string.h>
#ifdef __cplusplus
extern "C" {
#endif
void *vsim_malloc (size_t);
void *vsim_calloc (size_t, size_t);
void *vsim_realloc (void *, size_t);
void vsim_free (void *);
void vsim_exit (int) __attribute__ ((noreturn));
#ifdef __cplusplus
}
#endif
#define malloc vsim_malloc
#define calloc vsim_calloc
#define realloc vsim_realloc
#define free vsim_free
#define exit vsim_exit
#endif
