// Seeded generation of grammars, inputs and plans (DESIGN.md §3.3-3.4, §5).
#include "plan.h"
#include <algorithm>
#include <cstdio>
#include <set>

namespace sim {

// ------------------------------------------------------------------ hand-written pool
static GrammarSpec textg(const char *tag, const char *desc, std::vector<int> codes, int expect = 0, int strict = 1) {
  GrammarSpec g;
  g.text = true;
  g.tag = tag;
  g.desc = desc;
  g.codes = codes;
  g.expect = expect;
  g.strict = strict;
  return g;
}
static RuleDef R(const char *lhs, std::vector<std::string> rhs, const char *anode = nullptr, int cost = 0,
                 bool has_transl = false, std::vector<int> transl = {}) {
  RuleDef r;
  r.lhs = lhs;
  r.rhs = rhs;
  if (anode) { r.has_anode = true; r.anode = anode; r.cost = cost; }
  r.has_transl = has_transl;
  r.transl = transl;
  return r;
}
static GrammarSpec readg(const char *tag, std::vector<TermDef> terms, std::vector<RuleDef> rules, int expect = 0, int strict = 1) {
  GrammarSpec g;
  g.text = false;
  g.tag = tag;
  g.terms = terms;
  g.rules = rules;
  g.expect = expect;
  g.strict = strict;
  if (expect == 0) for (auto &t : terms) g.codes.push_back(t.code);
  return g;
}

struct HandInputs { const char *tag; std::vector<std::string> ins; };
static const std::vector<HandInputs> &hand_inputs() {
  static const std::vector<HandInputs> v = {
      {"suite-ETF", {"a+a*a", "a+a*(a*a+a)", "a", "(a)", "a+", "a+a*(a*a+a", "a++a", "", "a*a*a*a+a+a+a", ")a("}},
      {"ambig-E", {"a+a*a", "a+a+a+a", "a*a+a*a+a", "a", "a+", "+a", "a+a*a+a*a+a", ""}},
      {"cost-ABC", {"ab", "a", "abb", "", "ba"}},
      {"nullable", {"abc", "", "ac", "b", "cba", "abcabc", "aa"}},
      {"hidden-lr", {"x", "axb", "xb", "aaxbb", "xbb", "ab", "", "axbxb"}},
      {"err-stmts", {"i;i;", "i;;i;", "ii;", ";", "i;i", "", "i;xi;i;", "xx;i;"}},
      {"cost-E", {"a+a*a", "a+a+a", "a*a*a", "a", "a+a*", ""}},
      {"alt-deep", {"aaaa", "aaaaaa", "aa", "a", "", "aaab"}},
  };
  return v;
}

const std::vector<GrammarSpec> &handwritten_good() {
  static std::vector<GrammarSpec> v;
  if (!v.empty()) return v;
  v.push_back(textg("suite-ETF",
                    "TERM;\nE : T # 0\n  | E '+' T # plus (0 2)\n  ;\nT : F # 0\n  | T '*' F # mult (0 2)\n  ;\n"
                    "F : 'a' # 0\n  | '(' E ')' # 1\n  ;\n",
                    {'a', '+', '*', '(', ')'}));
  v.push_back(textg("ambig-E", "TERM;\nE : E '+' E # plus (0 2)\n  | E '*' E # mult (0 2)\n  | 'a' # 0\n  ;\n", {'a', '+', '*'}));
  v.push_back(textg("cost-ABC",
                    "TERM;\nS : A # 0\n | B # 0\n | C # 0\n ;\nA : 'a' 'b' # x 5 (0 1)\n ;\nB : 'a' 'b' # y 5 (0 1)\n ;\n"
                    "C : 'a' 'b' # z 1 (1)\n ;\n",
                    {'a', 'b'}));
  v.push_back(textg("nullable",
                    "TERM;\nS : A B C # s (0 1 2)\n ;\nA : 'a' # 0\n |\n ;\nB : 'b' # 0\n | # -\n ;\nC : 'c' # 0\n | # cnil 2\n ;\n",
                    {'a', 'b', 'c'}));
  v.push_back(textg("hidden-lr", "TERM;\nS : A S 'b' # s (0 1 2)\n | 'x' # 0\n ;\nA : 'a' # 0\n | # -\n ;\n", {'x', 'a', 'b'}));
  v.push_back(textg("err-stmts",
                    "TERM;\nP : L # 0\n ;\nL : L S # l (0 1)\n | # -\n ;\nS : 'i' ';' # st (0)\n | error ';' # er (0)\n ;\n",
                    {'i', ';'}));
  v.push_back(textg("cost-E",
                    "TERM;\nE : E '+' E # plus 3 (0 2)\n  | E '*' E # mult 1 (0 2)\n  | 'a' # leaf 1 (0)\n  ;\n", {'a', '+', '*'}));
  v.push_back(textg("alt-deep", "TERM;\nS : S S # c 1 (0 1)\n | 'a' # 0\n | 'a' 'a' # d 1 (0 1)\n ;\n", {'a', 'b'}, 0, 0));
  // alt-deep declares 'b'? no: only 'a' is declared; fix codes below
  v.back().codes = {'a'};
  // read-route grammars (sparse codes, codes with gaps inside the declared range)
  v.push_back(readg("read-sparse",
                    {{"num", 7}, {"plus", 300}, {"lp", 20000}, {"rp", 20007}},
                    {R("e", {"e", "plus", "t"}, "add", 2, true, {0, 2}), R("e", {"t"}, nullptr, 0, true, {0}),
                     R("t", {"num"}, nullptr, 0, true, {0}), R("t", {"lp", "e", "rp"}, "par", 1, true, {1})}));
  v.push_back(readg("read-gaps",
                    {{"a", 3}, {"b", 5}, {"c", 9}},
                    {R("s", {"a", "s", "b"}, "n", 0, true, {-2, 1, 0}), R("s", {"c"}, nullptr, 0, true, {0}),
                     R("s", {}, nullptr, 0, false)}));
  // code layouts at the spread where the code lookup changes from a vector to a hash table
  v.push_back(readg("read-edge-a", {{"a", 1}, {"b", 9997}}, {R("s", {"a", "s", "b"}, "n", 0, true, {1}), R("s", {"b"}, nullptr, 0, true, {0})}));
  v.push_back(readg("read-edge-b", {{"a", 1}, {"b", 9998}}, {R("s", {"a", "s", "b"}, "n", 0, true, {1}), R("s", {"b"}, nullptr, 0, true, {0})}));
  v.push_back(readg("read-edge-c", {{"a", 3}, {"b", 9998}, {"c", 30000}},
                    {R("s", {"a", "s", "b"}, "n", 0, true, {1}), R("s", {"c"}, nullptr, 0, true, {0}), R("s", {"b", "c"}, "m", 1, true, {0, 1})}));
  // abstract nodes with an empty name (only the callback route can say that)
  v.push_back(readg("read-noname",
                    {{"a", 1}, {"p", 2}},
                    {R("e", {"e", "p", "e"}, "", 1, true, {0, 2}), R("e", {"a"}, "", 0, true, {0})}));
  return v;
}

const std::vector<GrammarSpec> &handwritten_bad() {
  static std::vector<GrammarSpec> v;
  if (!v.empty()) return v;
  v.push_back(textg("bad-syntax", "TERM;\nE : ( \n", {}, 3));
  v.push_back(textg("bad-syntax2", "TERM a=1\nE : a # x (0\n ;\n", {}, 3));
  v.push_back(textg("bad-comment", "TERM;\nE : 'a' /* unfinished\n ;\n", {}, 3));
  v.push_back(textg("bad-syntax3", "TERM;\nS : 'a' # node 7 (0 ;\n", {}, 3));
  v.push_back(textg("bad-syntax4", "TERM a=1 b=2;\nS : a b # n 4 (0 1) | b # m 9 ( 0\n", {}, 3));
  // lexical errors: characters that are no token of the description language
  v.push_back(textg("bad-char-at", "TERM;\nE : 'a' @ 'b'\n ;\n", {}, 3));
  v.push_back(textg("bad-char-slash", "TERM a=1;\nS : a / a\n ;\n", {}, 3));
  v.push_back(textg("bad-char-dollar", "TERM;\nS : 'a' $ 'b' # 0\n ;\n", {}, 3));
  v.push_back(textg("bad-char-quote", "TERM;\nS : 'ab'\n ;\n", {}, 3));
  v.push_back(readg("bad-fixedname", {{"error", 5}, {"a", 6}}, {R("s", {"a"})}, 4));
  v.push_back(readg("bad-fixedname2", {{"a", 6}}, {R("$S", {"a"})}, 4));
  v.push_back(readg("bad-repterm", {{"a", 1}, {"b", 2}, {"a", 3}}, {R("s", {"a"})}, 5));
  v.push_back(readg("bad-negcode", {{"a", 1}, {"b", -3}}, {R("s", {"a"})}, 6));
  v.push_back(readg("bad-repcode", {{"a", 1}, {"b", 1}}, {R("s", {"a"})}, 7));
  v.push_back(textg("bad-repcode-t", "TERM a=1 b=1;\nS : a b\n ;\n", {}, 7));
  v.push_back(textg("bad-repcode-t2", "TERM a=1 a=2;\nS : a\n ;\n", {}, 7));
  v.push_back(readg("bad-norules", {{"a", 1}}, {}, 8));
  v.push_back(textg("bad-norules-t", "TERM a=1;\n", {}, 8));
  v.push_back(readg("bad-termlhs", {{"a", 1}}, {R("s", {"a"}), R("a", {"a"})}, 9));
  v.push_back(textg("bad-termlhs-t", "TERM a=1;\nS : a\n ;\na : a\n ;\n", {}, 9));
  v.push_back(readg("bad-transl", {{"a", 1}, {"b", 2}}, {R("s", {"a", "b"}, nullptr, 0, true, {0, 1})}, 10));
  v.push_back(readg("bad-negcost", {{"a", 1}}, {R("s", {"a"}, "n", -1, true, {0})}, 11));
  v.push_back(readg("bad-symnum", {{"a", 1}}, {R("s", {"a"}, "n", 1, true, {0, 4})}, 12));
  v.push_back(textg("bad-symnum-t", "TERM;\nS : 'a' # 5\n ;\n", {}, 12));
  v.push_back(readg("bad-repnum", {{"a", 1}, {"b", 2}}, {R("s", {"a", "b"}, "n", 1, true, {0, 0})}, 13));
  v.push_back(textg("bad-repnum-t", "TERM;\nS : 'a' 'b' # x (1 1)\n ;\n", {}, 13));
  v.push_back(readg("bad-unaccess", {{"a", 1}, {"b", 2}}, {R("s", {"a"}), R("u", {"b"})}, 14));
  v.push_back(textg("bad-unaccess-t", "TERM;\nS : 'a'\n ;\nB : 'b'\n ;\n", {}, 14));
  v.push_back(readg("bad-nonderiv", {{"a", 1}}, {R("s", {"s", "a"})}, 15));
  v.push_back(textg("bad-nonderiv-t", "TERM;\nS : 'a' B\n ;\nB : B 'b'\n ;\n", {}, 15));
  v.push_back(readg("bad-loop", {{"a", 1}}, {R("s", {"u"}), R("s", {"a"}), R("u", {"s"})}, 16));
  v.push_back(textg("bad-loop-t", "TERM;\nS : S\n | 'a'\n ;\n", {}, 16));
  return v;
}

// ------------------------------------------------------------------ generated grammars
GrammarSpec gen_grammar(Rng &r) {
  GrammarSpec g;
  g.tag = "gen";
  int nN = r.range(2, 5), nT = r.range(2, 5);
  bool rich = r.chance(1, 5); // a richer vocabulary now and then: many lookahead contexts, larger tables
  if (rich) { nN = r.range(5, 8); nT = r.range(6, 9); g.tag = "gen-rich"; }
  // terminal codes: dense / gaps / sparse
  int style = (int)r.below(4);
  int code = style == 0 ? 0 : r.range(1, 40);
  for (int i = 0; i < nT; i++) {
    char nm[8];
    snprintf(nm, sizeof nm, "t%d", i);
    g.terms.push_back({nm, code});
    if (style == 0) code += 1;
    else if (style == 1) code += r.range(1, 3);
    else if (style == 2) code += r.range(1, 9) * (r.chance(1, 3) ? 100 : 1);
    else code += r.chance(1, 2) ? r.range(9000, 12000) : r.range(1, 5);
  }
  // one layout in eight straddles the spread at which yaep changes its code lookup from a vector to a hash table
  // (largest code - smallest code, the smallest being that of the internal `error' terminal, around 10000)
  if (r.chance(1, 8)) {
    g.terms.back().code = 9994 + r.range(0, 8);
    if (g.terms.size() > 2 && r.chance(1, 2)) g.terms[g.terms.size() - 2].code = g.terms.back().code - r.range(1, 3);
    for (size_t i = 0; i + 2 < g.terms.size(); i++) if (g.terms[i].code >= 9000) g.terms[i].code = (int)i * 3 + 1;
    if (r.chance(1, 3)) { g.terms[0].code = g.terms.back().code + r.range(1, 20000); }
    std::set<int> used;
    for (size_t i = g.terms.size(); i-- > 0;) {  // keep the codes distinct (the edge codes win)
      while (used.count(g.terms[i].code)) g.terms[i].code++;
      used.insert(g.terms[i].code);
    }
  }
  if (r.chance(1, 4)) std::swap(g.terms[0], g.terms[(size_t)r.below(g.terms.size())]);
  auto N = [](int i) { char b[16]; snprintf(b, sizeof b, "n%d", i); return std::string(b); };
  int anodes = 0;
  auto add_transl = [&](RuleDef &rd) {
    int n = (int)rd.rhs.size();
    int k = (int)r.below(10);
    if (k < 4) {
      char nm[8];
      snprintf(nm, sizeof nm, "a%d", anodes++);
      rd.has_anode = true;
      rd.anode = nm;
      rd.cost = r.range(0, 5);
      rd.has_transl = !r.chance(1, 8);
      if (rd.has_transl) {
        std::vector<int> idx;
        for (int i = 0; i < n; i++) idx.push_back(i);
        for (int i = n - 1; i > 0; i--) std::swap(idx[i], idx[(size_t)r.below((uint64_t)i + 1)]);
        int take = n ? r.range(0, n) : 0;
        for (int i = 0; i < take; i++) {
          rd.transl.push_back(idx[i]);
          if (r.chance(1, 6)) rd.transl.push_back(-2);
        }
        if (r.chance(1, 6)) rd.transl.push_back(-2);
      }
    } else if (k < 7 && n > 0) {
      rd.has_transl = true;
      rd.transl.push_back((int)r.below((uint64_t)n));
    } else if (k < 8) {
      rd.has_transl = true;
      if (r.chance(1, 2)) rd.transl.push_back(-2);
    }
  };
  std::vector<bool> referenced(nN, false);
  referenced[0] = true;
  for (int i = 0; i < nN; i++) {
    int nr = r.range(1, 3);
    for (int k = 0; k < nr; k++) {
      RuleDef rd;
      rd.lhs = N(i);
      int len = k == 0 ? r.range(0, 3) : r.range(1, 4);
      for (int j = 0; j < len; j++) {
        bool term = r.chance(1, 2);
        if (k == 0 && i == nN - 1) term = true;
        if (term)
          rd.rhs.push_back(g.terms[(size_t)r.below(g.terms.size())].name);
        else {
          int t = k == 0 ? r.range(i + 1, nN - 1) : r.range(0, nN - 1);
          rd.rhs.push_back(N(t));
          referenced[t] = true;
        }
      }
      if (k > 0 && r.chance(1, 10) && !rd.rhs.empty()) {
        // Not as the first symbol of a rule of the start symbol: yaep then does not add `$S : error $eof',
        // error recovery can end without any alternative and uses an uninitialised recovery state
        // (a recovery-completion defect, C07, outside the claimed properties; see DESIGN.md §7).
        size_t pos = (size_t)r.below(rd.rhs.size());
        if (i == 0 && pos == 0) {
          if (rd.rhs.size() == 1) rd.rhs.insert(rd.rhs.begin(), g.terms[(size_t)r.below(g.terms.size())].name);
          pos = 1;
        }
        rd.rhs[pos] = "error";
        rd.rhs.push_back(g.terms[(size_t)r.below(g.terms.size())].name);
      }
      if (rd.rhs.size() == 1 && rd.rhs[0] == rd.lhs) rd.rhs.push_back(g.terms[0].name);
      add_transl(rd);
      g.rules.push_back(rd);
    }
  }
  for (int j = 1; j < nN; j++)
    if (!referenced[j]) {
      RuleDef rd;
      rd.lhs = N((int)r.below((uint64_t)j));
      rd.rhs = {N(j), g.terms[(size_t)r.below(g.terms.size())].name};
      add_transl(rd);
      g.rules.push_back(rd);
    }
  // rules of one lhs need not be adjacent for yaep; keep order but make the start rule first
  g.strict = r.chance(7, 10) ? 1 : 0;
  for (auto &t : g.terms) g.codes.push_back(t.code);
  if (r.chance(1, 2)) {
    // description route; rules with a NULL transl and no anode print without '#'
    bool ok = true;
    for (auto &rd : g.rules)
      if (!rd.has_anode && rd.transl.size() > 1) ok = false;
    if (ok) {
      g.desc = grammar_to_desc(g);
      g.text = true;
    }
  }
  if (!g.text && r.chance(1, 6))  // the callback route can name an abstract node ""
    for (auto &rd : g.rules)
      if (rd.has_anode && r.chance(1, 2)) rd.anode = "";
  return g;
}

// ------------------------------------------------------------------ grammar families (common idioms with seeded shape)
// chain: FOLLOW information must travel through a chain of "X : t Y" rules declared against the direction of
// propagation; items: a list of items of several kinds that share a middle part, so that equal (set, terminal,
// lookahead) triples recur with different origins; nest: brackets around a shared inner list.
GrammarSpec gen_family_grammar(Rng &r) {
  GrammarSpec g;
  int fam = (int)r.below(3);
  auto T = [&](const char *n, int c) { g.terms.push_back({n, c}); };
  auto Rl = [&](const std::string &lhs, std::vector<std::string> rhs, bool anode) {
    RuleDef rd;
    rd.lhs = lhs;
    rd.rhs = rhs;
    if (anode && !rhs.empty()) {
      rd.has_anode = true;
      rd.anode = "f" + std::to_string(g.rules.size());
      rd.cost = r.range(0, 3);
      rd.has_transl = true;
      for (size_t i = 0; i < rhs.size(); i++) if (r.chance(3, 4)) rd.transl.push_back((int)i);
    } else if (!rhs.empty()) { rd.has_transl = true; rd.transl.push_back((int)r.below(rhs.size())); }
    g.rules.push_back(rd);
  };
  int base = r.range(1, 60);
  if (fam == 0) {
    g.tag = "fam-chain";
    int d = r.range(2, 5);
    T("s", base); T("x", base + 1); T("a", base + 2);
    for (int i = 0; i <= d; i++) g.terms.push_back({"k" + std::to_string(i), base + 3 + i});
    // S : s A | s Nd x ; N1 : k1 A ; Ni : ki N(i-1) ; A : a     (declared top-down: propagation runs bottom-up)
    Rl("S", {"s", "A"}, r.chance(1, 2));
    Rl("S", {"s", "N" + std::to_string(d), "x"}, r.chance(1, 2));
    std::vector<int> order;
    for (int i = 1; i <= d; i++) order.push_back(i);
    if (r.chance(1, 2)) std::reverse(order.begin(), order.end());
    for (int i : order) {
      if (i == 1) Rl("N1", {"k1", "A"}, r.chance(1, 2));
      else Rl("N" + std::to_string(i), {"k" + std::to_string(i), "N" + std::to_string(i - 1)}, r.chance(1, 2));
    }
    Rl("A", {"a"}, r.chance(1, 2));
    if (r.chance(1, 3)) Rl("A", {"a", "A"}, true);
  } else if (fam == 1) {
    g.tag = "fam-items";
    int kinds = r.range(2, 4);
    T("a", base); T("b", base + 1); T("c", base + 2); T("d", base + 3);
    for (int i = 0; i < kinds; i++) g.terms.push_back({"h" + std::to_string(i), base + 10 + i});
    bool right = r.chance(1, 2);
    if (right) { Rl("L", {"I", "L"}, true); Rl("L", {"I"}, false); }
    else { Rl("L", {"L", "I"}, true); Rl("L", {"I"}, false); }
    for (int i = 0; i < kinds; i++) {
      std::vector<std::string> rhs = {"h" + std::to_string(i), "M", "c"};
      for (int j = 0; j < i; j++) rhs.push_back("d");
      Rl("I", rhs, r.chance(2, 3));
    }
    Rl("M", {"a", "b"}, r.chance(1, 2));
    if (r.chance(1, 2)) Rl("M", {"a", "M", "b"}, true);
    if (r.chance(1, 3)) Rl("I", {"error", "c"}, false);
  } else {
    g.tag = "fam-nest";
    T("l", base); T("r", base + 1); T("e", base + 2); T("q", base + 3); T("m", base + 4);
    Rl("S", {"B"}, false);
    Rl("B", {"l", "Q", "r"}, true);
    Rl("B", {"l", "B", "r"}, true);
    Rl("B", {"B", "m", "B"}, r.chance(1, 2));
    Rl("Q", {"e"}, false);
    Rl("Q", {"Q", "q", "e"}, true);
    if (r.chance(1, 2)) Rl("Q", {}, false);
  }
  g.strict = r.chance(3, 4) ? 1 : 0;
  for (auto &t : g.terms) g.codes.push_back(t.code);
  if (r.chance(1, 2)) {
    bool ok = true;
    for (auto &rd : g.rules) if (!rd.has_anode && rd.transl.size() > 1) ok = false;
    if (ok) { g.desc = grammar_to_desc(g); g.text = true; }
  }
  return g;
}

std::vector<int> gen_sentence(Rng &r, const GrammarSpec &g, int max_len) {
  std::vector<int> out;
  if (g.rules.empty()) return out;
  std::map<std::string, int> tcode;
  for (auto &t : g.terms) tcode[t.name] = t.code;
  std::map<std::string, std::vector<const RuleDef *>> by;
  for (auto &rd : g.rules) by[rd.lhs].push_back(&rd);
  struct Item { std::string sym; int depth; };
  std::vector<Item> stack;
  stack.push_back({g.rules[0].lhs, 0});
  int depth_limit = max_len > 24 ? max_len / 2 : 5;
  int budget = 400 + 20 * max_len;
  while (!stack.empty() && budget-- > 0 && (int)out.size() < max_len) {
    Item it = stack.back();
    stack.pop_back();
    auto tc = tcode.find(it.sym);
    if (tc != tcode.end()) { out.push_back(tc->second); continue; }
    auto b = by.find(it.sym);
    if (b == by.end()) continue; // "error" or undefined nonterminal
    const RuleDef *rd;
    if (it.depth > depth_limit) { // finish: the rule with the fewest nonterminals (the first such)
      rd = b->second[0];
      size_t best = ~(size_t)0;
      for (const RuleDef *c : b->second) {
        size_t nn = 0;
        for (auto &sy : c->rhs) if (by.count(sy)) nn++;
        if (nn < best) { best = nn; rd = c; }
      }
    } else
      rd = b->second[(size_t)r.below(b->second.size())];
    for (int i = (int)rd->rhs.size() - 1; i >= 0; i--) stack.push_back({rd->rhs[(size_t)i], it.depth + 1});
  }
  return out;
}

static std::vector<int> mutate(Rng &r, std::vector<int> in, const std::vector<int> &codes) {
  int n = r.range(1, 2);
  for (int k = 0; k < n; k++) {
    int what = (int)r.below(4);
    if (in.empty()) what = 1;
    size_t pos = in.empty() ? 0 : (size_t)r.below(in.size());
    if (what == 0) in.erase(in.begin() + (long)pos);
    else if (what == 1 && !codes.empty()) in.insert(in.begin() + (long)pos, codes[(size_t)r.below(codes.size())]);
    else if (what == 2 && !codes.empty()) in[pos] = codes[(size_t)r.below(codes.size())];
    else if (in.size() > 1) std::swap(in[pos], in[(pos + 1) % in.size()]);
  }
  return in;
}

Pool make_pool(uint64_t pool_seed) {
  Rng r(pool_seed * 0x9E3779B97F4A7C15ull + 12345);
  Pool p;
  const auto &hg = handwritten_good();
  // a seeded subset of the hand-written grammars plus generated ones
  for (auto &g : hg)
    if (r.chance(2, 3)) p.good.push_back(g);
  int ngen = r.range(8, 14);
  for (int i = 0; i < ngen; i++) p.good.push_back(gen_grammar(r));
  int nfam = r.range(2, 4);
  for (int i = 0; i < nfam; i++) p.good.push_back(gen_family_grammar(r));
  for (auto &g : handwritten_bad())
    if (r.chance(1, 2)) p.bad.push_back(g);
  if (p.bad.empty()) p.bad.push_back(handwritten_bad()[0]);
  for (auto &g : p.good) {
    std::vector<std::vector<int>> ins;
    if (g.tag.compare(0, 3, "gen") != 0 && g.tag.compare(0, 4, "fam-") != 0) {
      for (auto &hi : hand_inputs())
        if (g.tag == hi.tag)
          for (auto &s : hi.ins) {
            std::vector<int> v;
            for (unsigned char c : s) v.push_back(c);
            ins.push_back(v);
          }
      if (ins.empty()) { // read-route hand grammars: derive
        for (int i = 0; i < 5; i++) ins.push_back(gen_sentence(r, g, 20));
      }
      int base = (int)ins.size();
      for (int i = 0; i < 3; i++) ins.push_back(mutate(r, ins[(size_t)r.below((uint64_t)base)], g.codes));
    } else {
      int maxlen = g.tag == "gen-rich" ? 22 : 12;
      for (int i = 0; i < 5; i++) ins.push_back(gen_sentence(r, g, r.range(2, maxlen)));
      for (int i = 0; i < 3; i++) ins.push_back(mutate(r, ins[(size_t)r.below(5)], g.codes));
      ins.push_back({});
    }
    p.inputs.push_back(ins);
  }
  return p;
}

// ------------------------------------------------------------------ plans
namespace {

struct GObj { int good = -1; }; // which pool grammar the generator believes is defined (-1 none)
struct GTask {
  int arche = 0;
  std::vector<Op> queue;
  std::vector<GObj> objs;
  int trees = 0;
};

struct PlanBuilder {
  Rng &r;
  const Pool &pool;
  Plan &plan;
  std::map<std::pair<int, int>, int> gmap; // (kind 0 good/1 bad, idx) -> plan grammar index
  std::map<std::pair<int, int>, int> imap; // (good idx, input idx) -> plan input index
  std::map<std::vector<int>, int> rawin;
  PlanBuilder(Rng &rr, const Pool &p, Plan &pl) : r(rr), pool(p), plan(pl) {}
  int use_grammar(bool bad, int idx) {
    auto key = std::make_pair(bad ? 1 : 0, idx);
    auto it = gmap.find(key);
    if (it != gmap.end()) return it->second;
    plan.grammars.push_back(bad ? pool.bad[(size_t)idx] : pool.good[(size_t)idx]);
    return gmap[key] = (int)plan.grammars.size() - 1;
  }
  int use_input(const std::vector<int> &in) {
    auto it = rawin.find(in);
    if (it != rawin.end()) return it->second;
    plan.inputs.push_back(in);
    return rawin[in] = (int)plan.inputs.size() - 1;
  }
};

int pick_setter_value(Rng &r, Setter s) {
  switch (s) {
  case S_LOOKAHEAD: { static const int v[] = {0, 1, 2, 0, 1, 2, -3, 7}; return v[r.below(8)]; }
  case S_DEBUG: { static const int v[] = {0, 0, 0, 1, 2, 3, 4, 6, -1}; return v[r.below(9)]; }
  case S_ONE_PARSE: { static const int v[] = {0, 1, 0, 1, 5}; return v[r.below(5)]; }
  case S_COST: { static const int v[] = {0, 1, 0, 1, 2}; return v[r.below(5)]; }
  case S_RECOVERY: { static const int v[] = {1, 1, 0, 1, 3}; return v[r.below(5)]; }
  case S_MATCH: { static const int v[] = {3, 1, 2, 5, 0, 3}; return v[r.below(6)]; }
  }
  return 0;
}

} // namespace

const Pool &pool_for_seed(uint64_t seed) {
  static uint64_t cached_seed = ~0ull;
  static Pool cached;
  uint64_t pool_seed = seed >> 8;
  if (cached_seed != pool_seed) { cached = make_pool(pool_seed); cached_seed = pool_seed; }
  return cached;
}

Plan gen_hist_plan(uint64_t seed, bool oom, int focus) {
  const Pool &pool = pool_for_seed(seed);
  Rng r(seed * 0xD1342543DE82EF95ull + 7);
  Plan plan;
  plan.seed = seed;
  plan.mode = oom ? "oom" : "hist";
  plan.focus = focus;
  static const int knobw[] = {0, 0, 0, 1, 1, 2, 2, 3, 3, 4};
  plan.cfg.knobs = knobw[r.below(10)];
  static const uint8_t pz[] = {0xAB, 0xCD, 0x5A, 0xFF, 0x01};
  plan.cfg.poison = pz[r.below(5)];
  plan.cfg.free_poison = r.chance(1, 2) ? 0xDD : 0xEE;
  plan.cfg.pad = r.range(0, 3);
  plan.cfg.quarantine = r.range(0, 32);
  plan.cfg.realloc_mode = (int)r.below(3);
  static const int cs[] = {0, 0, 0, 16, 128, 256};
  plan.cfg.cache_skip = cs[r.below(6)];
  plan.cfg.selfcheck = r.chance(1, 4) ? 1 : 0;
  plan.cfg.sink = r.chance(4, 5) ? 0 : r.range(1, 2);
  plan.cfg.salt = r.next();
  plan.backends = 3;
  // non-gating probe runs (DESIGN.md §5): trees freed before their grammar (yaep.h forbids it)
  if (!oom && r.chance(1, 10)) plan.early_free = 1;
  PlanBuilder pb(r, pool, plan);

  int ntasks = r.range(1, 3);
  std::vector<GTask> tasks((size_t)ntasks);
  for (int t = 0; t < ntasks; t++) {
    GTask &T = tasks[(size_t)t];
    {
      static const int w[4][4] = {{3, 3, 2, 2}, {1, 2, 6, 1}, {2, 1, 1, 6}, {3, 3, 2, 2}};
      const int *ww = w[focus & 3];
      int tot = ww[0] + ww[1] + ww[2] + ww[3], x = (int)r.below((uint64_t)tot);
      T.arche = x < ww[0] ? 0 : x < ww[0] + ww[1] ? 1 : x < ww[0] + ww[1] + ww[2] ? 2 : 3;
    }
    auto emit = [&](Op op) { op.task = t + 1; T.queue.push_back(op); };
    auto mk = [&](OpKind k) { Op o; o.kind = k; return o; };
    auto add_create = [&]() { emit(mk(OP_CREATE)); T.objs.push_back(GObj()); };
    auto add_sets = [&](int n) {
      for (int i = 0; i < n; i++) {
        if (T.objs.empty()) return;
        Op o = mk(OP_SET);
        o.setter = (Setter)r.below(6);
        o.value = pick_setter_value(r, o.setter);
        o.obj = (int)r.below(T.objs.size());
        emit(o);
      }
    };
    auto add_define = [&](bool bad) {
      if (T.objs.empty()) return;
      Op o = mk(OP_DEFINE);
      o.obj = (int)r.below(T.objs.size());
      if (bad) {
        int bi = (int)r.below(pool.bad.size());
        o.grammar = pb.use_grammar(true, bi);
        T.objs[(size_t)o.obj].good = -1;
      } else {
        int gi = (int)r.below(pool.good.size());
        o.grammar = pb.use_grammar(false, gi);
        T.objs[(size_t)o.obj].good = gi;
      }
      emit(o);
    };
    auto add_parse = [&](int fault_kind /*0 none,1 badtok,2 eof*/, int alloc_pref /*-1 any*/) {
      if (T.objs.empty()) return;
      Op o = mk(OP_PARSE);
      o.obj = (int)r.below(T.objs.size());
      int gi = T.objs[(size_t)o.obj].good;
      std::vector<int> in;
      const GrammarSpec *g = nullptr;
      if (gi >= 0) {
        g = &pool.good[(size_t)gi];
        in = pool.inputs[(size_t)gi][(size_t)r.below(pool.inputs[(size_t)gi].size())];
      } else {
        size_t k = (size_t)r.below(pool.good.size());
        in = pool.inputs[k][(size_t)r.below(pool.inputs[k].size())];
      }
      o.input = pb.use_input(in);
      if (alloc_pref >= 0) o.alloc = (AllocMode)alloc_pref;
      else {
        static const AllocMode am[] = {AM_CUSTOM_FREE, AM_CUSTOM_FREE, AM_CUSTOM_FREE, AM_CUSTOM_NOFREE, AM_DEFAULT, AM_DEFAULT};
        o.alloc = am[r.below(6)];
      }
      if (fault_kind == 1) {
        o.fault.type = Fault::BADTOK;
        o.fault.k = in.empty() ? 0 : (long)r.below(in.size() + 1);
        // a code that is not declared: below min, above max, or in a gap
        int lo = 0, hi = 0;
        std::set<int> decl;
        if (g) for (int c : g->codes) decl.insert(c);
        if (!decl.empty()) { lo = *decl.begin(); hi = *decl.rbegin(); }
        int c = 0;
        for (int tries = 0; tries < 50; tries++) {
          int w = (int)r.below(5);
          if (w == 4 && !decl.empty()) { // a neighbour of a declared code
            auto it = decl.begin();
            std::advance(it, (long)r.below(decl.size()));
            c = *it + (r.chance(1, 2) ? 1 : -1);
          } else if (w == 0 || w == 4) c = hi + r.range(1, 3);
          else if (w == 1) c = lo > 0 ? (int)r.below((uint64_t)lo) : hi + 1;
          else if (w == 2) c = lo + (int)r.below((uint64_t)(hi - lo + 1));
          else c = hi + r.range(9990, 10010);
          if (!decl.count(c) && c >= 0) break;
        }
        if (decl.count(c)) c = hi + 1;
        o.fault.code = c;
      } else if (fault_kind == 2) {
        o.fault.type = Fault::EOF_AT;
        o.fault.k = in.empty() ? 0 : (long)r.below(in.size());
      }
      emit(o);
      T.trees++;
    };
    auto add_errq = [&]() { if (T.objs.empty()) return; Op o = mk(OP_ERRQ); o.obj = (int)r.below(T.objs.size()); emit(o); };
    auto add_walk = [&]() { if (!T.trees) return; Op o = mk(OP_WALK); o.tree = (int)r.below((uint64_t)T.trees); emit(o); };
    auto add_free_tree = [&]() { if (!T.trees) return; Op o = mk(OP_FREE_TREE); o.tree = (int)r.below((uint64_t)T.trees); emit(o); };
    auto add_free_grammar = [&]() {
      if (T.objs.empty()) return;
      Op o = mk(OP_FREE_GRAMMAR);
      o.obj = (int)r.below(T.objs.size());
      T.objs.erase(T.objs.begin() + o.obj);
      emit(o);
    };
    switch (T.arche) {
    case 0: { // front-end: define once, parse many
      add_create();
      add_sets(r.range(0, 3));
      add_define(false);
      int n = r.range(2, 6);
      for (int i = 0; i < n; i++) {
        add_parse(r.chance(1, 8) ? r.range(1, 2) : 0, -1);
        if (r.chance(1, 4)) add_errq();
        if (r.chance(1, 4)) add_sets(1);
        if (r.chance(1, 5)) add_walk();
      }
      add_free_grammar();
      for (int i = 0; i < n; i++) if (r.chance(2, 3)) add_free_tree();
      break;
    }
    case 1: { // REPL: redefine repeatedly
      add_create();
      int n = r.range(2, 5);
      for (int i = 0; i < n; i++) {
        add_define(r.chance(3, 10));
        int m = r.range(1, 2);
        for (int j = 0; j < m; j++) add_parse(0, -1);
        if (r.chance(1, 3)) add_sets(r.range(1, 2));
        if (r.chance(1, 4)) add_errq();
      }
      add_free_grammar();
      if (r.chance(1, 2)) add_free_tree();
      break;
    }
    case 2: { // sloppy: misuse of every kind
      add_create();
      if (r.chance(1, 2)) add_parse(0, -1);
      if (r.chance(1, 2)) add_errq();
      add_define(true);
      add_parse(0, -1);
      add_errq();
      add_define(r.chance(1, 5));
      add_parse(1, -1);
      add_errq();
      add_parse(0, AM_NULL_FREE);
      add_errq();
      add_sets(r.range(1, 3));
      add_parse(r.range(0, 2), -1);
      if (r.chance(1, 2)) { add_define(true); add_parse(0, -1); add_define(false); add_parse(0, -1); }
      add_free_grammar();
      break;
    }
    default: { // hoarder: many live trees, freed late and out of order
      int no = r.range(1, 2);
      for (int i = 0; i < no; i++) add_create();
      for (int i = 0; i < no; i++) add_define(false);
      if (r.chance(2, 3)) { Op o = mk(OP_SET); o.setter = S_ONE_PARSE; o.value = 0; o.obj = 0; emit(o); }
      if (r.chance(1, 2)) { Op o = mk(OP_SET); o.setter = S_COST; o.value = 1; o.obj = (int)r.below(T.objs.size()); emit(o); }
      int n = r.range(3, 7);
      for (int i = 0; i < n; i++) {
        add_parse(0, r.chance(2, 3) ? AM_CUSTOM_FREE : AM_DEFAULT);
        if (r.chance(1, 4)) add_walk();
      }
      while (!T.objs.empty()) { add_free_grammar(); if (r.chance(1, 2)) add_walk(); }
      for (int i = 0; i < n + 1; i++) { add_free_tree(); if (r.chance(1, 5)) add_walk(); }
      break;
    }
    }
  }
  // seeded scheduler: interleave the task queues, one API call at a time
  std::vector<size_t> pos((size_t)ntasks, 0);
  int bias = (int)r.below(3); // 0 uniform, 1 sticky (long runs of one task), 2 round robin
  int last = 0;
  for (;;) {
    std::vector<int> ready;
    for (int t = 0; t < ntasks; t++) if (pos[(size_t)t] < tasks[(size_t)t].queue.size()) ready.push_back(t);
    if (ready.empty()) break;
    int t;
    if (bias == 1 && std::find(ready.begin(), ready.end(), last) != ready.end() && !r.chance(1, 4)) t = last;
    else if (bias == 2) { t = ready[0]; for (int x : ready) if (x > last) { t = x; break; } }
    else t = ready[(size_t)r.below(ready.size())];
    plan.ops.push_back(tasks[(size_t)t].queue[pos[(size_t)t]++]);
    last = t;
  }
  if (oom) {
    // attach one to three allocation faults to CREATE / DEFINE / PARSE ops
    std::vector<size_t> cand;
    for (size_t i = 0; i < plan.ops.size(); i++) {
      const Op &o = plan.ops[i];
      if ((o.kind == OP_CREATE || o.kind == OP_DEFINE || o.kind == OP_PARSE) && o.fault.type == Fault::NONE &&
          !(o.kind == OP_PARSE && o.alloc == AM_NULL_FREE))
        cand.push_back(i);
    }
    int nf = r.range(1, 3);
    for (int i = 0; i < nf && !cand.empty(); i++) {
      size_t ci = (size_t)r.below(cand.size());
      Op &o = plan.ops[cand[ci]];
      cand.erase(cand.begin() + (long)ci);
      if (o.kind == OP_PARSE && o.alloc == AM_DEFAULT && r.chance(1, 3)) {
        o.fault.type = Fault::TREEALLOC;
        o.fault.k = r.range(1, 6);
      } else {
        o.fault.type = Fault::ALLOC_FRAC;
        o.fault.frac = (int)r.below(1000);
      }
    }
    // libyaep++ creates its container objects with the global operator new, which reports failure by throwing:
    // one run in ten also fails the k-th such request of one call (no effect on the C library).  Known finding KF-2.
    if (!cand.empty() && r.chance(1, 10)) {
      Op &o = plan.ops[cand[(size_t)r.below(cand.size())]];
      o.fault.type = Fault::NEWFAIL;
      o.fault.k = r.chance(1, 2) ? r.range(1, 4) : r.range(1, 24);
    }
  }
  return plan;
}

} // namespace sim
