#!/usr/bin/env python3
"""Prints the grammar description string of test/C/test41.c (C string literal concatenation)."""
import ast, re, sys
src = open(sys.argv[1]).read()
m = re.search(r'static const char \*description\s*=\s*(.*?)\n\s*;', src, re.S)
body = m.group(1)
out = []
for lit in re.findall(r'"((?:[^"\\]|\\.)*)"', body):
    out.append(ast.literal_eval('"' + lit + '"'))
sys.stdout.write("".join(out))
