#include "plan.h"
#include <cstdio>
#include <cstdlib>
#include <cstring>
#include <sstream>

namespace sim {

static uint64_t splitmix(uint64_t &x) {
  uint64_t z = (x += 0x9E3779B97F4A7C15ull);
  z = (z ^ (z >> 30)) * 0xBF58476D1CE4E5B9ull;
  z = (z ^ (z >> 27)) * 0x94D049BB133111EBull;
  return z ^ (z >> 31);
}
Rng::Rng(uint64_t seed) {
  uint64_t x = seed;
  for (int i = 0; i < 4; i++) s[i] = splitmix(x);
}
static inline uint64_t rotl(uint64_t x, int k) { return (x << k) | (x >> (64 - k)); }
uint64_t Rng::next() {
  uint64_t result = rotl(s[1] * 5, 7) * 9, t = s[1] << 17;
  s[2] ^= s[0]; s[3] ^= s[1]; s[1] ^= s[2]; s[0] ^= s[3];
  s[2] ^= t; s[3] = rotl(s[3], 45);
  return result;
}

uint64_t fnv1a(const std::string &s, uint64_t h) {
  for (unsigned char c : s) { h ^= c; h *= 1099511628211ull; }
  return h;
}

std::string esc(const std::string &s) {
  if (s.empty()) return "~";
  std::string o;
  char b[8];
  for (unsigned char c : s) {
    if (isalnum(c) || c == '_' || c == '$' || c == '\'' || c == '+' || c == '*' || c == '-' || c == '.')
      o += (char)c;
    else { snprintf(b, sizeof b, "%%%02X", c); o += b; }
  }
  return o;
}
std::string unesc(const std::string &s) {
  if (s == "~") return "";
  std::string o;
  for (size_t i = 0; i < s.size(); i++) {
    if (s[i] == '%' && i + 3 <= s.size()) {
      o += (char)strtol(s.substr(i + 1, 2).c_str(), nullptr, 16);
      i += 2;
    } else
      o += s[i];
  }
  return o;
}

static const char *kOpNames[] = {"CREATE", "SET", "DEFINE", "PARSE", "ERRQ", "WALK", "FREE_TREE", "FREE_GRAMMAR", "CONFIG"};
static const char *kSetNames[] = {"lookahead", "debug", "one_parse", "cost", "recovery", "match"};
static const char *kAllocNames[] = {"custom+free", "custom", "default", "null+free"};

static std::string fault_to_text(const Fault &f) {
  char b[96];
  switch (f.type) {
  case Fault::NONE: return "none";
  case Fault::ALLOC:
    if (f.kx) snprintf(b, sizeof b, "alloc@%ld/%ld", f.k, f.kx);
    else snprintf(b, sizeof b, "alloc@%ld", f.k);
    return b;
  case Fault::ALLOC_FRAC: snprintf(b, sizeof b, "alloc@f%d", f.frac); return b;
  case Fault::ALLOC_STICKY: snprintf(b, sizeof b, "alloc@%ld+", f.k); return b;
  case Fault::TREEALLOC: snprintf(b, sizeof b, "treealloc@%ld", f.k); return b;
  case Fault::NEWFAIL: snprintf(b, sizeof b, "newfail@%ld", f.k); return b;
  case Fault::BADTOK: snprintf(b, sizeof b, "badtok@%ld:%d", f.k, f.code); return b;
  case Fault::EOF_AT: snprintf(b, sizeof b, "eof@%ld", f.k); return b;
  }
  return "none";
}

static bool fault_from_text(const std::string &s, Fault *f) {
  *f = Fault();
  if (s == "none") return true;
  const char *c = s.c_str();
  if (!strncmp(c, "alloc@f", 7)) { f->type = Fault::ALLOC_FRAC; f->frac = atoi(c + 7); return true; }
  if (!strncmp(c, "alloc@", 6)) {
    f->k = atol(c + 6);
    if (s.back() == '+') f->type = Fault::ALLOC_STICKY;
    else {
      f->type = Fault::ALLOC;
      const char *sl = strchr(c, '/');
      if (sl) f->kx = atol(sl + 1);
    }
    return true;
  }
  if (!strncmp(c, "treealloc@", 10)) { f->type = Fault::TREEALLOC; f->k = atol(c + 10); return true; }
  if (!strncmp(c, "newfail@", 8)) { f->type = Fault::NEWFAIL; f->k = atol(c + 8); return true; }
  if (!strncmp(c, "badtok@", 7)) {
    f->type = Fault::BADTOK; f->k = atol(c + 7);
    const char *col = strchr(c, ':');
    f->code = col ? atoi(col + 1) : 0;
    return true;
  }
  if (!strncmp(c, "eof@", 4)) { f->type = Fault::EOF_AT; f->k = atol(c + 4); return true; }
  return false;
}

std::string op_to_text(const Op &op) {
  std::ostringstream o;
  o << "op T" << op.task << " " << kOpNames[op.kind];
  switch (op.kind) {
  case OP_CREATE: break;
  case OP_SET: o << " " << kSetNames[op.setter] << " " << op.value << " obj=" << op.obj; break;
  case OP_DEFINE: o << " g=" << op.grammar << " obj=" << op.obj; break;
  case OP_PARSE: o << " in=" << op.input << " obj=" << op.obj << " alloc=" << kAllocNames[op.alloc]; break;
  case OP_ERRQ: o << " obj=" << op.obj; break;
  case OP_WALK: case OP_FREE_TREE: o << " tree=" << op.tree; break;
  case OP_FREE_GRAMMAR: o << " obj=" << op.obj; break;
  case OP_CONFIG:
    o << " knobs=" << op.c_knobs << " cache_skip=" << op.c_cache_skip << " selfcheck=" << op.c_selfcheck << " realloc=" << op.c_realloc
      << " sink=" << op.c_sink;
    break;
  }
  if (op.fault.type != Fault::NONE) o << " fault=" << fault_to_text(op.fault);
  return o.str();
}

std::string plan_to_text(const Plan &p) {
  std::ostringstream o;
  o << "yaepsim-plan 1\n";
  o << "origin seed=" << p.seed << " mode=" << p.mode << " focus=" << p.focus << "\n";
  o << "config knobs=" << p.cfg.knobs << " poison=" << (int)p.cfg.poison << " fpoison=" << (int)p.cfg.free_poison
    << " pad=" << p.cfg.pad << " quar=" << p.cfg.quarantine << " realloc=" << p.cfg.realloc_mode
    << " cache_skip=" << p.cfg.cache_skip << " selfcheck=" << p.cfg.selfcheck << " sink=" << p.cfg.sink
    << " salt=" << p.cfg.salt << " backends=" << p.backends << " probe_reuse=" << p.probe_reuse
    << " early_free=" << p.early_free << "\n";
  for (size_t i = 0; i < p.grammars.size(); i++) {
    const GrammarSpec &g = p.grammars[i];
    o << "grammar " << i << " route=" << (g.text ? "text" : "read") << " strict=" << g.strict << " expect=" << g.expect
      << " tag=" << esc(g.tag) << " codes=";
    for (size_t j = 0; j < g.codes.size(); j++) o << (j ? "," : "") << g.codes[j];
    if (g.codes.empty()) o << "-";
    o << "\n";
    if (g.text)
      o << " desc " << esc(g.desc) << "\n";
    else {
      for (auto &t : g.terms) o << " term " << esc(t.name) << " " << t.code << "\n";
      for (auto &r : g.rules) {
        o << " rule " << esc(r.lhs) << " :";
        for (auto &s : r.rhs) o << " " << esc(s);
        o << " | anode=" << (r.has_anode ? esc(r.anode) : std::string("!")) << " cost=" << r.cost << " transl=";
        if (!r.has_transl) o << "!";
        else if (r.transl.empty()) o << "-";
        else for (size_t j = 0; j < r.transl.size(); j++) {
          if (j) o << ",";
          if (r.transl[j] == -2) o << "NIL"; else o << r.transl[j];
        }
        o << "\n";
      }
    }
    o << "end\n";
  }
  for (size_t i = 0; i < p.inputs.size(); i++) {
    o << "input " << i;
    for (int c : p.inputs[i]) o << " " << c;
    o << "\n";
  }
  for (auto &op : p.ops) o << op_to_text(op) << "\n";
  return o.str();
}

static std::vector<std::string> split_ws(const std::string &s) {
  std::vector<std::string> v;
  std::istringstream is(s);
  std::string w;
  while (is >> w) v.push_back(w);
  return v;
}
static bool kv(const std::string &w, const char *key, std::string *val) {
  size_t n = strlen(key);
  if (w.size() > n && w.compare(0, n, key) == 0 && w[n] == '=') { *val = w.substr(n + 1); return true; }
  return false;
}

bool plan_from_text(const std::string &text, Plan *out, std::string *err) {
  Plan p;
  std::istringstream is(text);
  std::string line;
  GrammarSpec *cur = nullptr;
  int lineno = 0;
  auto fail = [&](const std::string &m) { if (err) *err = "line " + std::to_string(lineno) + ": " + m; return false; };
  while (std::getline(is, line)) {
    lineno++;
    std::vector<std::string> w = split_ws(line);
    if (w.empty() || w[0][0] == '#') continue;
    std::string v;
    if (w[0] == "yaepsim-plan") continue;
    if (w[0] == "origin") {
      for (auto &x : w) { if (kv(x, "seed", &v)) p.seed = strtoull(v.c_str(), nullptr, 10); if (kv(x, "mode", &v)) p.mode = v; if (kv(x, "focus", &v)) p.focus = atoi(v.c_str()); }
    } else if (w[0] == "config") {
      for (auto &x : w) {
        if (kv(x, "knobs", &v)) p.cfg.knobs = atoi(v.c_str());
        else if (kv(x, "poison", &v)) p.cfg.poison = (uint8_t)atoi(v.c_str());
        else if (kv(x, "fpoison", &v)) p.cfg.free_poison = (uint8_t)atoi(v.c_str());
        else if (kv(x, "pad", &v)) p.cfg.pad = atoi(v.c_str());
        else if (kv(x, "quar", &v)) p.cfg.quarantine = atoi(v.c_str());
        else if (kv(x, "realloc", &v)) p.cfg.realloc_mode = atoi(v.c_str());
        else if (kv(x, "cache_skip", &v)) p.cfg.cache_skip = atoi(v.c_str());
        else if (kv(x, "selfcheck", &v)) p.cfg.selfcheck = atoi(v.c_str());
        else if (kv(x, "sink", &v)) p.cfg.sink = atoi(v.c_str());
        else if (kv(x, "salt", &v)) p.cfg.salt = strtoull(v.c_str(), nullptr, 10);
        else if (kv(x, "backends", &v)) p.backends = atoi(v.c_str());
        else if (kv(x, "probe_reuse", &v)) p.probe_reuse = atoi(v.c_str());
        else if (kv(x, "early_free", &v)) p.early_free = atoi(v.c_str());
      }
      if (p.cfg.knobs < 0 || p.cfg.knobs >= kNumKnobs) return fail("bad knob preset");
    } else if (w[0] == "grammar") {
      p.grammars.emplace_back();
      cur = &p.grammars.back();
      for (auto &x : w) {
        if (kv(x, "route", &v)) cur->text = (v == "text");
        else if (kv(x, "strict", &v)) cur->strict = atoi(v.c_str());
        else if (kv(x, "expect", &v)) cur->expect = atoi(v.c_str());
        else if (kv(x, "tag", &v)) cur->tag = unesc(v);
        else if (kv(x, "codes", &v)) {
          if (v != "-") { std::istringstream cs(v); std::string c; while (std::getline(cs, c, ',')) cur->codes.push_back(atoi(c.c_str())); }
        }
      }
    } else if (w[0] == "term") {
      if (!cur || w.size() < 3) return fail("term outside grammar");
      cur->terms.push_back({unesc(w[1]), atoi(w[2].c_str())});
    } else if (w[0] == "desc") {
      if (!cur || w.size() < 2) return fail("desc outside grammar");
      cur->desc = unesc(w[1]);
    } else if (w[0] == "rule") {
      if (!cur || w.size() < 4) return fail("bad rule");
      RuleDef r;
      r.lhs = unesc(w[1]);
      size_t i = 3;
      for (; i < w.size() && w[i] != "|"; i++) r.rhs.push_back(unesc(w[i]));
      for (; i < w.size(); i++) {
        if (kv(w[i], "anode", &v)) { if (v != "!") { r.has_anode = true; r.anode = unesc(v); } }
        else if (kv(w[i], "cost", &v)) r.cost = atoi(v.c_str());
        else if (kv(w[i], "transl", &v)) {
          if (v == "!") r.has_transl = false;
          else { r.has_transl = true; if (v != "-") { std::istringstream cs(v); std::string c; while (std::getline(cs, c, ',')) r.transl.push_back(c == "NIL" ? -2 : atoi(c.c_str())); } }
        }
      }
      cur->rules.push_back(r);
    } else if (w[0] == "end") {
      cur = nullptr;
    } else if (w[0] == "input") {
      std::vector<int> in;
      for (size_t i = 2; i < w.size(); i++) in.push_back(atoi(w[i].c_str()));
      p.inputs.push_back(in);
    } else if (w[0] == "op") {
      if (w.size() < 3) return fail("bad op");
      Op op;
      op.task = atoi(w[1].c_str() + 1);
      int k = -1;
      for (int i = 0; i < 9; i++) if (w[2] == kOpNames[i]) k = i;
      if (k < 0) return fail("unknown op " + w[2]);
      op.kind = (OpKind)k;
      size_t i = 3;
      if (op.kind == OP_SET) {
        if (w.size() < 5) return fail("bad SET");
        int s = -1;
        for (int j = 0; j < 6; j++) if (w[3] == kSetNames[j]) s = j;
        if (s < 0) return fail("unknown setter");
        op.setter = (Setter)s;
        op.value = atoi(w[4].c_str());
        i = 5;
      }
      for (; i < w.size(); i++) {
        if (kv(w[i], "obj", &v)) op.obj = atoi(v.c_str());
        else if (kv(w[i], "tree", &v)) op.tree = atoi(v.c_str());
        else if (kv(w[i], "g", &v)) op.grammar = atoi(v.c_str());
        else if (kv(w[i], "in", &v)) op.input = atoi(v.c_str());
        else if (kv(w[i], "alloc", &v)) { for (int j = 0; j < 4; j++) if (v == kAllocNames[j]) op.alloc = (AllocMode)j; }
        else if (kv(w[i], "fault", &v)) { if (!fault_from_text(v, &op.fault)) return fail("bad fault " + v); }
        else if (kv(w[i], "knobs", &v)) { op.c_knobs = atoi(v.c_str()); if (op.c_knobs < 0 || op.c_knobs >= kNumKnobs) return fail("bad knob preset"); }
        else if (kv(w[i], "cache_skip", &v)) op.c_cache_skip = atoi(v.c_str());
        else if (kv(w[i], "selfcheck", &v)) op.c_selfcheck = atoi(v.c_str());
        else if (kv(w[i], "realloc", &v)) op.c_realloc = atoi(v.c_str());
        else if (kv(w[i], "sink", &v)) op.c_sink = atoi(v.c_str());
      }
      if (op.kind == OP_DEFINE && (op.grammar < 0 || op.grammar >= (int)p.grammars.size())) return fail("grammar index out of range");
      if (op.kind == OP_PARSE && (op.input < 0 || op.input >= (int)p.inputs.size())) return fail("input index out of range");
      p.ops.push_back(op);
    } else
      return fail("unknown line " + w[0]);
  }
  *out = p;
  return true;
}

std::string grammar_to_desc(const GrammarSpec &g) {
  std::ostringstream o;
  o << "TERM";
  for (auto &t : g.terms) o << " " << t.name << "=" << t.code;
  o << ";\n";
  // group consecutive rules of one lhs
  for (size_t i = 0; i < g.rules.size(); i++) {
    const RuleDef &r = g.rules[i];
    o << r.lhs << " :";
    for (auto &s : r.rhs) o << " " << s;
    if (r.has_anode || r.has_transl) {
      o << " #";
      if (r.has_anode) {
        o << " " << r.anode << " " << r.cost << " (";
        for (int t : r.transl) { if (t == -2) o << " -"; else o << " " << t; }
        o << " )";
      } else if (!r.transl.empty()) {
        if (r.transl[0] == -2) o << " -"; else o << " " << r.transl[0];
      }
    }
    o << "\n ;\n";
  }
  return o.str();
}

} // namespace sim
