// Simulated heap and process seams.  See simheap.h / DESIGN.md §3.5-3.7.
#include "simheap.h"
#include <cerrno>
#include <csetjmp>
#include <cstdarg>
#include <cstdlib>
#include <cstring>
#include <deque>
#include <new>
#include <unordered_map>
#include <unistd.h>

#if defined(__SANITIZE_ADDRESS__)
#define VSIM_ASAN 1
#else
#define VSIM_ASAN 0
#endif

namespace sim {

const KnobPreset kKnobs[] = {
    {"default", 0, 0, 512, 0, 512, 10000},
    {"tiny-a", 3, 32, 32, 16, 16, 0},
    {"tiny-b", 7, 64, 16, 8, 8, 16},
    {"tiny-c", 11, 8, 8, 64, 32, 10000},
    {"mid", 101, 256, 64, 128, 64, 300},
};
const int kNumKnobs = sizeof(kKnobs) / sizeof(kKnobs[0]);

int g_in_lib = 0;
Backend g_backend = B_NONE;
int g_exit_code = 0;
long g_steps = 0, g_step_budget = 300000, g_byte_budget = 192l << 20;
int g_cache_mismatch_tok = -1, g_cache_mismatch_kind = 0;
long g_sink_bytes = 0;
int g_pl_last = -1, g_pl_toks = -1, g_announce_fd = -1;

LibEnter::LibEnter() : saved(g_in_lib) { g_in_lib = 1; }
LibEnter::~LibEnter() { g_in_lib = saved; }
LibExit::LibExit() : saved(g_in_lib) { g_in_lib = 0; }
LibExit::~LibExit() { g_in_lib = saved; }

namespace {

struct Block {
  size_t size;
  void *real;
  Kind kind;
  Backend be;
  int op;
  long seq;
  bool excused;
};

HeapConfig g_cfg;
OpFault g_fault;
OpCounters g_cur;
Totals g_tot;
int g_op = -1;
long g_seq = 0;
long g_counter = 0; // decisions by counter hash
int g_expanding = 0;
std::unordered_map<const void *, Block> *g_blocks;
std::unordered_map<const void *, int> *g_recent; // freed user pointers -> 1
std::deque<HeapViolation> *g_viol;
struct Quar { void *real; size_t total; };
std::deque<Quar> *g_quar;
jmp_buf *g_exit_jmp = nullptr;

struct NoLib { // registry code must not be taken for library allocation
  int saved;
  NoLib() : saved(g_in_lib) { g_in_lib = 0; }
  ~NoLib() { g_in_lib = saved; }
};

void ensure() {
  if (!g_blocks) {
    NoLib n;
    g_blocks = new std::unordered_map<const void *, Block>();
    g_recent = new std::unordered_map<const void *, int>();
    g_viol = new std::deque<HeapViolation>();
    g_quar = new std::deque<Quar>();
  }
}

void violation(const char *kind, const char *fmt, ...) __attribute__((format(printf, 2, 3)));
void violation(const char *kind, const char *fmt, ...) {
  char buf[256];
  va_list ap;
  va_start(ap, fmt);
  vsnprintf(buf, sizeof buf, fmt, ap);
  va_end(ap);
  NoLib n;
  ensure();
  if (g_viol->size() < 16) g_viol->push_back({kind, buf});
}

uint64_t mix(uint64_t x) {
  x += 0x9E3779B97F4A7C15ull;
  x = (x ^ (x >> 30)) * 0xBF58476D1CE4E5B9ull;
  x = (x ^ (x >> 27)) * 0x94D049BB133111EBull;
  return x ^ (x >> 31);
}

void *raw_alloc(size_t size, Kind kind, bool zero) {
  ensure();
  size_t padb = (size_t)g_cfg.pad * 16;
  size_t total = padb + (size ? size : 1);
  char *real = (char *)::malloc(total);
  if (!real) { fprintf(stderr, "simheap: real malloc failed\n"); _exit(71); }
  memset(real, g_cfg.poison, total);
  char *user = real + padb;
  if (zero) memset(user, 0, size);
  {
    NoLib n;
    g_recent->erase(user);
    (*g_blocks)[user] = Block{size, real, kind, g_backend, g_op, ++g_seq, false};
  }
  g_cur.bytes += (long)size;
  g_tot.allocs++;
  return user;
}

void release(void *user, Block b) {
  size_t padb = (size_t)((char *)user - (char *)b.real);
  size_t total = padb + (b.size ? b.size : 1);
  memset(b.real, g_cfg.free_poison, total);
  {
    NoLib n;
    g_blocks->erase(user);
    if (g_recent->size() > 200000) g_recent->clear();
    (*g_recent)[user] = 1;
  }
  g_tot.frees++;
#if VSIM_ASAN
  ::free(b.real);
#else
  if (g_cfg.quarantine > 0) {
    NoLib n;
    g_quar->push_back({b.real, total});
    while ((int)g_quar->size() > g_cfg.quarantine) {
      Quar q = g_quar->front();
      g_quar->pop_front();
      const unsigned char *p = (const unsigned char *)q.real;
      for (size_t i = 0; i < q.total; i++)
        if (p[i] != g_cfg.free_poison) {
          violation("write_after_free", "freed block modified at offset %zu", i);
          break;
        }
      ::free(q.real);
    }
  } else
    ::free(b.real);
#endif
}

void flush_quarantine() {
#if !VSIM_ASAN
  NoLib n;
  ensure();
  while (!g_quar->empty()) {
    Quar q = g_quar->front();
    g_quar->pop_front();
    const unsigned char *p = (const unsigned char *)q.real;
    for (size_t i = 0; i < q.total; i++)
      if (p[i] != g_cfg.free_poison) {
        violation("write_after_free", "freed block modified at offset %zu", i);
        break;
      }
    ::free(q.real);
  }
#endif
}

// Releases a block through a deallocation entry point expecting `want`.
void generic_free(void *p, Kind want, const char *entry) {
  if (!p) return;
  ensure();
  step();
  g_cur.frees++;
  Block b;
  bool found;
  {
    NoLib n;
    auto it = g_blocks->find(p);
    found = it != g_blocks->end();
    if (found) b = it->second;
  }
  if (!found) {
    bool recent;
    { NoLib n; recent = g_recent->count(p) != 0; }
    violation(recent ? "double_free" : "foreign_free", "%s of a block that is %s", entry,
              recent ? "already freed" : "not a live library block");
    return; // do not touch the real heap
  }
  bool ok = (b.kind == want);
  if (!ok)
    violation("kind_mismatch", "%s releases a block of kind %s", entry,
              b.kind == K_NEW ? "operator-new" : b.kind == K_TREE ? "tree-default" : "internal");
  if (b.be != g_backend && g_backend != B_NONE)
    violation("cross_backend_free", "%s releases a block of the other library", entry);
  release(p, b);
}

} // namespace

void step() {
  g_steps++;
  g_tot.steps++;
  if (g_steps > g_step_budget || g_cur.bytes > g_byte_budget) {
    violation("step_budget", "operation exceeded its resource budget (%ld steps, %ld bytes requested)", g_steps, g_cur.bytes);
    g_steps = 0;
    if (g_exit_jmp) longjmp(*g_exit_jmp, 2);
  }
}

void heap_reset_run(const HeapConfig &cfg) {
  ensure();
  flush_quarantine();
  g_cfg = cfg;
  g_op = -1;
  g_counter = 0;
  g_expanding = 0;
  g_cur = OpCounters();
  g_fault = OpFault();
  g_cache_mismatch_tok = -1;
  g_steps = 0;
}

void heap_set_knobs(int knobs, int cache_skip, int selfcheck, int realloc_mode, int sink) {
  g_cfg.knobs = knobs;
  g_cfg.cache_skip = cache_skip;
  g_cfg.selfcheck = selfcheck;
  g_cfg.realloc_mode = realloc_mode;
  g_cfg.sink = sink;
}

void heap_begin_op(Backend b, int op_index, const OpFault &f) {
  ensure();
  g_backend = b;
  g_op = op_index;
  g_fault = f;
  g_cur = OpCounters();
  g_expanding = 0;
  g_steps = 0;
  g_exit_code = 0;
}

OpCounters heap_end_op() {
  OpCounters c = g_cur;
  g_tot.realloc_moves += c.realloc_moves;
  g_tot.cache_hits += c.cache_hits;
  g_tot.cache_vetoes += c.cache_vetoes;
  g_tot.cache_checked += c.cache_checked;
  g_tot.hash_expands += c.hash_expands;
  g_tot.sink_errors += c.sink_errors;
  if (c.fault_fired) g_tot.faults_alloc++;
  if (c.tree_fault_fired) g_tot.faults_tree++;
  if (c.new_fault_fired) g_tot.faults_new++;
  g_fault = OpFault();
  g_backend = B_NONE;
  return c;
}

const OpCounters &heap_cur() { return g_cur; }
Totals &heap_totals() { return g_tot; }

bool heap_take_violation(HeapViolation *out) {
  ensure();
  if (g_viol->empty()) return false;
  *out = g_viol->front();
  g_viol->pop_front();
  return true;
}

size_t heap_live_internal(Backend be, bool include_excused) {
  ensure();
  size_t n = 0;
  for (auto &kv : *g_blocks)
    if (kv.second.be == be && kv.second.kind != K_TREE && (include_excused || !kv.second.excused)) n++;
  return n;
}

size_t heap_live_tree(Backend be) {
  ensure();
  size_t n = 0;
  for (auto &kv : *g_blocks)
    if (kv.second.be == be && kv.second.kind == K_TREE) n++;
  return n;
}

size_t heap_tree_live_of_op(Backend be, int op) {
  ensure();
  size_t n = 0;
  for (auto &kv : *g_blocks)
    if (kv.second.be == be && kv.second.kind == K_TREE && kv.second.op == op) n++;
  return n;
}

void heap_drop_tree_of_op(Backend be, int op) {
  ensure();
  NoLib n;
  std::vector<std::pair<void *, Block>> v;
  for (auto &kv : *g_blocks)
    if (kv.second.be == be && kv.second.kind == K_TREE && kv.second.op == op) v.push_back({(void *)kv.first, kv.second});
  for (auto &p : v) { g_blocks->erase(p.first); ::free(p.second.real); }
}

void heap_excuse_op_blocks(Backend be, int op) {
  ensure();
  for (auto &kv : *g_blocks)
    if (kv.second.be == be && kv.second.op == op) kv.second.excused = true;
}

std::string heap_describe_live(Backend be, int max) {
  ensure();
  std::string s;
  int n = 0;
  for (auto &kv : *g_blocks)
    if (kv.second.be == be && kv.second.kind != K_TREE && !kv.second.excused) {
      if (n++ >= max) break;
      s += " [seq=" + std::to_string(kv.second.seq) + " op=" + std::to_string(kv.second.op) +
           " size=" + std::to_string(kv.second.size) + "]";
    }
  return s;
}

bool heap_tree_block(const void *p, size_t *size) {
  ensure();
  auto it = g_blocks->find(p);
  if (it == g_blocks->end() || it->second.kind != K_TREE) return false;
  *size = it->second.size;
  return true;
}

void heap_forget_all() {
  ensure();
  NoLib n;
  std::vector<std::pair<void *, Block>> v;
  for (auto &kv : *g_blocks) v.push_back({(void *)kv.first, kv.second});
  for (auto &p : v) {
    g_blocks->erase(p.first);
    ::free(p.second.real);
  }
  g_recent->clear();
  flush_quarantine();
  g_viol->clear();
}

void set_exit_jump(void *j) { g_exit_jmp = (jmp_buf *)j; }

// ---------------------------------------------------------------- sink
namespace {
long g_sink_writes_total = 0;
ssize_t sink_write(void *, const char *buf, size_t size) {
  static int pass = -1;
  if (pass < 0) pass = getenv("VSIM_SINK_PASS") ? 1 : 0;
  if (pass && write(2, buf, size) < 0) {}
  g_cur.sink_writes++;
  g_sink_writes_total++;
  if (g_cfg.sink == 1 && g_cur.sink_writes >= 3) {
    g_cur.sink_errors++;
    errno = EIO;
    return 0; // fopencookie: 0 signals an error
  }
  if (g_cfg.sink == 2 && size > 1) {
    g_sink_bytes += (long)(size / 2);
    return (ssize_t)(size / 2);
  }
  g_sink_bytes += (long)size;
  return (ssize_t)size;
}
} // namespace

} // namespace sim

extern "C" {
FILE *vsim_sink = nullptr;
}

namespace sim {
void sink_open() {
  NoLib n;
  if (!vsim_sink) {
    cookie_io_functions_t io = {nullptr, sink_write, nullptr, nullptr};
    vsim_sink = fopencookie(nullptr, "w", io);
    setvbuf(vsim_sink, nullptr, _IOLBF, 256);
  }
  clearerr(vsim_sink);
}
std::string sink_take() { return ""; }
} // namespace sim

using namespace sim;

// ---------------------------------------------------------------- libc seam
extern "C" {

static bool fail_now() {
  g_cur.requests++;
  if (g_fault.alloc_k && (g_cur.requests == g_fault.alloc_k || (g_fault.alloc_sticky && g_cur.requests > g_fault.alloc_k))) {
    g_cur.fault_fired = true;
    return true;
  }
  return false;
}

void *vsim_malloc(size_t size) {
  step();
  if (fail_now()) return nullptr;
  return raw_alloc(size, K_INTERNAL, false);
}

void *vsim_calloc(size_t n, size_t size) {
  step();
  if (fail_now()) return nullptr;
  if (size && n > (size_t)-1 / size) return nullptr;
  return raw_alloc(n * size, K_INTERNAL, true);
}

void vsim_free(void *p) { generic_free(p, K_INTERNAL, "free()"); }

void *vsim_realloc(void *p, size_t size) {
  step();
  if (!p) {
    if (fail_now()) return nullptr;
    return raw_alloc(size, K_INTERNAL, false);
  }
  if (size == 0) {
    generic_free(p, K_INTERNAL, "realloc(p,0)");
    return nullptr;
  }
  if (fail_now()) return nullptr;
  ensure();
  Block b;
  bool found;
  {
    auto it = g_blocks->find(p);
    found = it != g_blocks->end();
    if (found) b = it->second;
  }
  if (!found) {
    violation("foreign_free", "%s", "realloc() of a block that is not a live library block");
    return raw_alloc(size, K_INTERNAL, false);
  }
  if (b.kind != K_INTERNAL) violation("kind_mismatch", "%s", "realloc() of a block not obtained from malloc");
  bool move = true;
  if (size <= b.size) {
    if (g_cfg.realloc_mode == 1) move = false;
    else if (g_cfg.realloc_mode == 2) move = (mix(g_cfg.salt ^ (uint64_t)(++g_counter)) & 1) != 0;
  }
  if (!move) {
    (*g_blocks)[p].size = size;
    return p;
  }
  void *q = raw_alloc(size, K_INTERNAL, false);
  memcpy(q, p, size < b.size ? size : b.size);
  (*g_blocks)[q].op = b.op; // the object keeps the op that created it
  (*g_blocks)[q].excused = b.excused;
  release(p, b);
  g_cur.realloc_moves++;
  return q;
}

void *vsim_tree_malloc(size_t size) {
  step();
  g_cur.tree_requests++;
  if (g_fault.tree_k && g_cur.tree_requests == g_fault.tree_k) {
    g_cur.tree_fault_fired = true;
    return nullptr;
  }
  return raw_alloc(size, K_TREE, false);
}

void vsim_tree_free(void *p) { generic_free(p, K_TREE, "default parse_free"); }

void vsim_exit(int code) {
  g_exit_code = code;
  violation("exit", "library called exit(%d)", code);
  if (g_exit_jmp) longjmp(*g_exit_jmp, 1);
  _exit(70);
}

// ---------------------------------------------------------------- hooks (YAEP_VERIF)
size_t yaep_verif_hash_size(size_t size) {
  if (g_expanding) {
    g_cur.hash_expands++;
    return size;
  }
  g_cur.hash_creates++;
  size_t cap = kKnobs[g_cfg.knobs].hash_cap;
  return (cap && size > cap) ? cap : size;
}
void yaep_verif_hash_expanding(int flag) { g_expanding = flag; }
size_t yaep_verif_os_len(size_t len) {
  g_cur.os_creates++;
  size_t cap = kKnobs[g_cfg.knobs].os_cap;
  return (cap && len > cap) ? cap : len;
}
size_t yaep_verif_vlo_len(size_t len) {
  g_cur.vlo_creates++;
  size_t cap = kKnobs[g_cfg.knobs].vlo_cap;
  return (cap && len > cap) ? cap : len;
}
size_t yaep_verif_os_default(void) { return kKnobs[g_cfg.knobs].os_default; }
size_t yaep_verif_vlo_default(void) { return kKnobs[g_cfg.knobs].vlo_default; }
int yaep_verif_code_vect_size(void) { return kKnobs[g_cfg.knobs].code_vect_size; }
int yaep_verif_cache_veto(void) {
  g_cur.cache_hits++;
  if (g_cfg.cache_skip <= 0) return 0;
  if (g_cfg.cache_skip >= 256 || (int)(mix(g_cfg.salt * 31 + (uint64_t)(++g_counter)) & 255) < g_cfg.cache_skip) {
    g_cur.cache_vetoes++;
    return 1;
  }
  return 0;
}
int yaep_verif_cache_selfcheck(void) {
  if (g_cfg.selfcheck) g_cur.cache_checked++;
  return g_cfg.selfcheck;
}
void yaep_verif_parse_list(int last_pl_el, int n_toks) {
  g_pl_last = last_pl_el;
  g_pl_toks = n_toks;
  if (g_announce_fd >= 0) {
    char b[64];
    int n = snprintf(b, sizeof b, "PLLEN %d %d\n", last_pl_el, n_toks);
    if (write(g_announce_fd, b, (size_t)n) < 0) {}
  }
}
void yaep_verif_cache_mismatch(int tok, int kind) {
  if (g_cache_mismatch_tok < 0) {
    g_cache_mismatch_tok = tok;
    g_cache_mismatch_kind = kind;
  }
  violation("cache_mismatch", "reused goto set differs from a fresh computation at token %d%s", tok,
            kind ? " (no transition at all)" : "");
}
} // extern "C"

// ---------------------------------------------------------------- operator new seam
static void *sim_new(size_t size) {
  if (g_in_lib && g_backend == B_CXX) {
    step();
    g_cur.new_requests++;
    if (g_fault.new_k && g_cur.new_requests == g_fault.new_k) {
      g_cur.new_fault_fired = true;
      throw std::bad_alloc();
    }
    return raw_alloc(size, K_NEW, false);
  }
  void *p = ::malloc(size ? size : 1);
  if (!p) throw std::bad_alloc();
  return p;
}
static void sim_delete(void *p) {
  if (!p) return;
  if (g_in_lib && g_backend == B_CXX) {
    bool found;
    { found = g_blocks && g_blocks->count(p); }
    if (found) {
      generic_free(p, K_NEW, "operator delete");
      return;
    }
    bool recent = g_recent && g_recent->count(p);
    if (recent) {
      violation("double_free", "%s", "operator delete of a block that is already freed");
      return;
    }
  }
  ::free(p);
}
void *operator new(size_t n) { return sim_new(n); }
void *operator new[](size_t n) { return sim_new(n); }
void operator delete(void *p) noexcept { sim_delete(p); }
void operator delete[](void *p) noexcept { sim_delete(p); }
void operator delete(void *p, size_t) noexcept { sim_delete(p); }
void operator delete[](void *p, size_t) noexcept { sim_delete(p); }
