/* Prints the token codes of a C source read from stdin, using the lexer of /repo/test/ansic.l.  */
#include <stdio.h>
int column = 0;
int line = 1;
#include "ansic_lex.c"
int main (void)
{
  int code;
  while ((code = yylex ()) > 0)
    printf ("%d\n", code);
  return 0;
}
