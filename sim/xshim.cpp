// C++ backend: class yaep of libyaep++, nothing else.  The yaep object itself is
// caller memory (placement new on harness memory), as `new yaep' in user code would be.
#include "yaep.h"
#include "backend.h"
#include <cstdlib>
#include <cstring>
#include <new>

namespace sim { extern int g_in_lib; }

static void *x_create(void) {
  int saved = sim::g_in_lib;
  sim::g_in_lib = 0;
  void *mem = ::malloc(sizeof(yaep));
  sim::g_in_lib = saved;
  yaep *y = new (mem) yaep();
  // class yaep has a single data member: the grammar pointer.  NULL means that the
  // constructor could not create the grammar; mirror the C API (NULL handle).
  void *gp;
  memcpy(&gp, (void *)y, sizeof gp);
  if (gp == nullptr) {
    y->~yaep();
    sim::g_in_lib = 0;
    ::free(mem);
    sim::g_in_lib = saved;
    return nullptr;
  }
  return y;
}
static void x_destroy(void *p) {
  if (!p) return;
  yaep *y = (yaep *)p;
  y->~yaep();
  int saved = sim::g_in_lib;
  sim::g_in_lib = 0;
  ::free(p);
  sim::g_in_lib = saved;
}
static int x_error_code(void *p) { return ((yaep *)p)->error_code(); }
static const char *x_error_message(void *p) { return ((yaep *)p)->error_message(); }
static int x_read_grammar(void *p, int strict, vs_read_terminal_t rt, vs_read_rule_t rr) {
  return ((yaep *)p)->read_grammar(strict, rt, rr);
}
static int x_parse_grammar(void *p, int strict, const char *d) { return ((yaep *)p)->parse_grammar(strict, d); }
static int x_set(void *p, int which, int v) {
  yaep *y = (yaep *)p;
  switch (which) {
  case 0: return y->set_lookahead_level(v);
  case 1: return y->set_debug_level(v);
  case 2: return y->set_one_parse_flag(v);
  case 3: return y->set_cost_flag(v);
  case 4: return y->set_error_recovery_flag(v);
  default: return y->set_recovery_match(v);
  }
}
static int x_parse(void *p, vs_read_token_t rt, vs_syntax_error_t se, vs_parse_alloc_t pa, vs_parse_free_t pf,
                   struct yaep_tree_node **root, int *amb) {
  return ((yaep *)p)->parse(rt, se, pa, pf, root, amb);
}
static void x_free_tree(struct yaep_tree_node *root, vs_parse_free_t pf, vs_termcb_t cb) { yaep::free_tree(root, pf, cb); }

extern "C" const struct BackendApi vs_api_cxx = {
    "cxx", x_create, x_destroy, x_error_code, x_error_message, x_read_grammar, x_parse_grammar,
    x_set, x_parse, x_free_tree};
