// Canonical DAG text and denoted-tree-set enumeration (DESIGN.md §3.8-3).
#include "exec.h"
#include <algorithm>
#include <sstream>

namespace sim {

std::string canon_to_text(const CanonDag &d) {
  std::ostringstream o;
  for (size_t i = 0; i < d.nodes.size(); i++) {
    const CanonNode &n = d.nodes[i];
    if (i) o << ";";
    o << n.type;
    switch (n.type) {
    case 'T': o << " " << n.code << " " << n.attr; break;
    case 'A':
      o << " " << esc(n.name) << " " << n.cost;
      for (int k : n.kids) o << " " << k;
      break;
    case 'L':
      for (int k : n.kids) o << " " << k;
      break;
    default: break;
    }
  }
  return o.str();
}

bool canon_from_text(const std::string &s, CanonDag *d) {
  d->nodes.clear();
  if (s.empty()) return true;
  std::istringstream is(s);
  std::string rec;
  while (std::getline(is, rec, ';')) {
    std::istringstream rs(rec);
    std::string t;
    if (!(rs >> t) || t.size() != 1) return false;
    CanonNode n;
    n.type = t[0];
    if (n.type == 'T') { if (!(rs >> n.code >> n.attr)) return false; }
    else if (n.type == 'A') {
      std::string nm;
      if (!(rs >> nm >> n.cost)) return false;
      n.name = unesc(nm);
      int k;
      while (rs >> k) n.kids.push_back(k);
    } else if (n.type == 'L') {
      int k;
      while (rs >> k) n.kids.push_back(k);
    } else if (n.type != 'N' && n.type != 'E')
      return false;
    d->nodes.push_back(n);
  }
  for (auto &n : d->nodes)
    for (int k : n.kids)
      if (k < 0 || k >= (int)d->nodes.size()) return false;
  return true;
}

namespace {
struct Enum {
  const CanonDag &d;
  size_t cap_trees, cap_work, work = 0;
  bool over = false;
  std::vector<int> state; // 0 new, 1 in progress, 2 done
  std::vector<std::vector<std::string>> memo;
  Enum(const CanonDag &dd, size_t ct, size_t cw) : d(dd), cap_trees(ct), cap_work(cw), state(dd.nodes.size(), 0), memo(dd.nodes.size()) {}
  const std::vector<std::string> &go(int i) {
    static const std::vector<std::string> empty;
    if (over) return empty;
    if (state[(size_t)i] == 2) return memo[(size_t)i];
    if (state[(size_t)i] == 1) { over = true; return empty; } // cycle: cannot enumerate
    state[(size_t)i] = 1;
    const CanonNode &n = d.nodes[(size_t)i];
    std::vector<std::string> res;
    if (++work > cap_work) over = true;
    switch (n.type) {
    case 'N': res.push_back("nil"); break;
    case 'E': res.push_back("err"); break;
    case 'T': res.push_back("t" + std::to_string(n.code) + "@" + std::to_string(n.attr)); break;
    case 'L':
      for (int k : n.kids) {
        const auto &v = go(k);
        if (over) break;
        res.insert(res.end(), v.begin(), v.end());
        if (res.size() > cap_trees) { over = true; break; }
      }
      std::sort(res.begin(), res.end());
      res.erase(std::unique(res.begin(), res.end()), res.end());
      break;
    case 'A': {
      std::vector<std::string> acc{n.name + ":" + std::to_string(n.cost) + "("};
      for (size_t c = 0; c < n.kids.size() && !over; c++) {
        const auto &v = go(n.kids[c]);
        if (over) break;
        std::vector<std::string> next;
        if (acc.size() * v.size() > cap_trees) { over = true; break; }
        for (auto &a : acc)
          for (auto &b : v) {
            next.push_back(a + (c ? "," : "") + b);
            if ((work += 1) > cap_work) { over = true; break; }
          }
        acc.swap(next);
      }
      for (auto &a : acc) res.push_back(a + ")");
      break;
    }
    }
    state[(size_t)i] = 2;
    memo[(size_t)i].swap(res);
    return memo[(size_t)i];
  }
};
} // namespace

bool canon_denotations(const CanonDag &d, std::vector<std::string> *out, size_t cap_trees, size_t cap_work) {
  out->clear();
  if (d.nodes.empty()) return true;
  Enum e(d, cap_trees, cap_work);
  const auto &v = e.go(0);
  if (e.over) return false;
  *out = v;
  std::sort(out->begin(), out->end());
  out->erase(std::unique(out->begin(), out->end()), out->end());
  return true;
}

} // namespace sim
