/* C backend: the public C API of libyaep, nothing else.  */
#include "yaep.h"
#include "backend.h"

static void *c_create (void) { return yaep_create_grammar (); }
static void c_destroy (void *g) { yaep_free_grammar ((struct grammar *) g); }
static int c_error_code (void *g) { return yaep_error_code ((struct grammar *) g); }
static const char *c_error_message (void *g) { return yaep_error_message ((struct grammar *) g); }
static int c_read_grammar (void *g, int strict, vs_read_terminal_t rt, vs_read_rule_t rr)
{ return yaep_read_grammar ((struct grammar *) g, strict, rt, rr); }
static int c_parse_grammar (void *g, int strict, const char *d)
{ return yaep_parse_grammar ((struct grammar *) g, strict, d); }
static int c_set (void *g, int which, int v)
{
  switch (which)
    {
    case 0: return yaep_set_lookahead_level ((struct grammar *) g, v);
    case 1: return yaep_set_debug_level ((struct grammar *) g, v);
    case 2: return yaep_set_one_parse_flag ((struct grammar *) g, v);
    case 3: return yaep_set_cost_flag ((struct grammar *) g, v);
    case 4: return yaep_set_error_recovery_flag ((struct grammar *) g, v);
    default: return yaep_set_recovery_match ((struct grammar *) g, v);
    }
}
static int c_parse (void *g, vs_read_token_t rt, vs_syntax_error_t se, vs_parse_alloc_t pa,
		    vs_parse_free_t pf, struct yaep_tree_node **root, int *amb)
{ return yaep_parse ((struct grammar *) g, rt, se, pa, pf, root, amb); }
static void c_free_tree (struct yaep_tree_node *root, vs_parse_free_t pf, vs_termcb_t cb)
{ yaep_free_tree (root, pf, cb); }

const struct BackendApi vs_api_c = {
  "c", c_create, c_destroy, c_error_code, c_error_message, c_read_grammar, c_parse_grammar,
  c_set, c_parse, c_free_tree
};
