// Plan executor.  See exec.h and DESIGN.md §3, §5.
#include <climits>
#include "exec.h"
#include "backend.h"
#include "yaep.h"
#include <algorithm>
#include <csetjmp>
#include <cstdarg>
#include <cstdlib>
#include <cstring>
#include <sstream>
#include <unistd.h>
#include <unordered_map>

namespace sim {

void RunStats::merge(const RunStats &o) {
  ops += o.ops; ops_skipped += o.ops_skipped; alloc_events += o.alloc_events; callbacks += o.callbacks;
  parses += o.parses; parses_ok += o.parses_ok; defines += o.defines; defines_ok += o.defines_ok; trees += o.trees;
  twin_queries += o.twin_queries; twin_hits += o.twin_hits; undecided_large += o.undecided_large;
  denot_compared += o.denot_compared;
  for (auto &kv : o.probes) probes[kv.first] += kv.second;
  for (auto &kv : o.faults) faults[kv.first] += kv.second;
  triples.insert(o.triples.begin(), o.triples.end());
  adjacencies.insert(o.adjacencies.begin(), o.adjacencies.end());
}

namespace {

// ------------------------------------------------------------------ model (C15)
struct Model {
  bool defined = false;
  int err = 0;
  int set[6] = {1, 0, 1, 0, 1, 3}; // lookahead, debug, one_parse, cost, recovery, match
  std::set<int> codes;
  int gidx = -1;
};

struct ObjRec {
  int uid = 0, task = 0;
  void *h = nullptr;
  bool alive = false, struck = false;
  Model m;
};

struct TBlock { size_t size; int parse_id; int ord; };

struct TreeRec {
  int task = 0;
  yaep_tree_node *root = nullptr;
  int parse_id = 0;
  AllocMode mode = AM_CUSTOM_FREE;
  int obj_uid = 0;
  std::string canon;
  int nterm = 0;
  bool valid = false; // canonicalisation succeeded at parse time
};

struct SynErr { int tok, a1, start, a2, stop, a3; };

// global callback context (the library's callbacks carry no user pointer)
struct CbCtx {
  // tokens
  std::vector<int> toks;
  size_t tpos = 0;
  long eof_at = -1;
  long eof_calls = 0;
  int attr_cells[4096];
  // syntax errors
  std::vector<SynErr> syn;
  bool bad_attr = false;
  // tree allocator
  std::unordered_map<const void *, TBlock> tblocks;
  int cur_parse = -1;       // parse op in flight (-1 none)
  int cur_free_tree = -1;   // parse id of the tree being freed (-1 none)
  int next_ord = 0;
  uint64_t shape = 0;
  long n_alloc = 0, n_free = 0, n_free_null = 0;
  std::vector<std::string> tviol; // C13 pairing violations noticed inside callbacks
  uint8_t poison = 0xAB;
  // termcb
  std::vector<const void *> termcb_args;
  // definition feed
  const GrammarSpec *g = nullptr;
  size_t ti = 0, ri = 0;
  std::vector<void *> feed_bufs; // every buffer handed out (freed after the call)
  long callbacks = 0;
  int announce_fd = -1;
  int end_code = -1;        // what the token reader returns at the end of the input (any negative value)
  uint64_t end_salt = 0;
} C;
static const int kEndCodes[] = {-1, -1, -2, -3, -1000, INT_MIN};

char *feed_str(const std::string &s) {
  char *p = (char *)::malloc(s.size() + 1);
  memcpy(p, s.c_str(), s.size() + 1);
  C.feed_bufs.push_back(p);
  return p;
}
struct FeedLen { void *p; size_t n; };
std::vector<FeedLen> g_feed_len;

void feed_release() {
  for (auto &f : g_feed_len) memset(f.p, 0x7E, f.n);
  for (void *p : C.feed_bufs) ::free(p);
  C.feed_bufs.clear();
  g_feed_len.clear();
}

extern "C" {
static const char *cb_read_terminal(int *code) {
  LibExit x;
  step();
  C.callbacks++;
  if (!C.g || C.ti >= C.g->terms.size()) return nullptr;
  const TermDef &t = C.g->terms[C.ti++];
  *code = t.code;
  char *p = feed_str(t.name);
  g_feed_len.push_back({p, t.name.size() + 1});
  return p;
}
static const char *cb_read_rule(const char ***rhs, const char **anode, int *cost, int **transl) {
  LibExit x;
  step();
  C.callbacks++;
  if (!C.g || C.ri >= C.g->rules.size()) return nullptr;
  const RuleDef &r = C.g->rules[C.ri++];
  const char **arr = (const char **)::malloc(sizeof(char *) * (r.rhs.size() + 1));
  C.feed_bufs.push_back(arr);
  g_feed_len.push_back({arr, sizeof(char *) * (r.rhs.size() + 1)});
  for (size_t i = 0; i < r.rhs.size(); i++) {
    char *s = feed_str(r.rhs[i]);
    g_feed_len.push_back({s, r.rhs[i].size() + 1});
    arr[i] = s;
  }
  arr[r.rhs.size()] = nullptr;
  *rhs = arr;
  if (r.has_anode) {
    char *a = feed_str(r.anode);
    g_feed_len.push_back({a, r.anode.size() + 1});
    *anode = a;
  } else
    *anode = nullptr;
  *cost = r.cost;
  if (r.has_transl) {
    int *t = (int *)::malloc(sizeof(int) * (r.transl.size() + 1));
    C.feed_bufs.push_back(t);
    g_feed_len.push_back({t, sizeof(int) * (r.transl.size() + 1)});
    for (size_t i = 0; i < r.transl.size(); i++) t[i] = r.transl[i] == -2 ? YAEP_NIL_TRANSLATION_NUMBER : r.transl[i];
    t[r.transl.size()] = kEndCodes[(C.end_salt + C.ri * 7) % 6]; // any negative value ends the array
    *transl = t;
  } else
    *transl = nullptr;
  char *l = feed_str(r.lhs);
  g_feed_len.push_back({l, r.lhs.size() + 1});
  return l;
}
static int cb_read_token(void **attr) {
  LibExit x;
  step();
  C.callbacks++;
  if ((long)C.tpos == C.eof_at || C.tpos >= C.toks.size()) {
    *attr = nullptr;
    C.eof_calls++;
    return C.end_code; // any negative value ends the input
  }
  size_t i = C.tpos++;
  *attr = &C.attr_cells[i < 4096 ? i : 4095];
  return C.toks[i];
}
static int attr_index(void *a) {
  if (!a) return -1;
  int *p = (int *)a;
  if (p < C.attr_cells || p >= C.attr_cells + 4096) { C.bad_attr = true; return -2; }
  return (int)(p - C.attr_cells);
}
static void cb_syntax_error(int tok, void *a1, int start, void *a2, int stop, void *a3) {
  LibExit x;
  step();
  C.callbacks++;
  C.syn.push_back({tok, attr_index(a1), start, attr_index(a2), stop, attr_index(a3)});
  if (C.announce_fd >= 0) {
    char b[96];
    int n = snprintf(b, sizeof b, "SYNERR %d %d %d\n", tok, start, stop);
    if (write(C.announce_fd, b, (size_t)n) < 0) {}
  }
}
// Without a sanitizer, a guard zone behind each block of the caller's allocator makes a write past its end visible.
#if defined(__SANITIZE_ADDRESS__)
static const size_t kTreeGuard = 0;
#else
static const size_t kTreeGuard = 16;
#endif
static bool tree_guard_ok(const void *p, size_t sz) {
  const unsigned char *g = (const unsigned char *)p + sz;
  for (size_t i = 0; i < kTreeGuard; i++) if (g[i] != 0xC5) return false;
  return true;
}
static void check_tree_guards(int parse_id) {
  if (!kTreeGuard) return;
  for (auto &kv : C.tblocks)
    if (kv.second.parse_id == parse_id && !tree_guard_ok(kv.first, kv.second.size)) {
      C.tviol.push_back("write past the end of a parse_alloc block of " + std::to_string(kv.second.size) + " bytes");
      memset((unsigned char *)kv.first + kv.second.size, 0xC5, kTreeGuard); // report once
    }
}
static void *cb_parse_alloc(int n) {
  LibExit x;
  step();
  C.callbacks++;
  if (n <= 0) C.tviol.push_back("parse_alloc called with size " + std::to_string(n));
  size_t sz = n > 0 ? (size_t)n : 1;
  void *p = ::malloc(sz + kTreeGuard);
  memset(p, C.poison, sz);
  memset((unsigned char *)p + sz, 0xC5, kTreeGuard);
  int ord = C.next_ord++;
  C.tblocks[p] = TBlock{sz, C.cur_parse, ord};
  C.n_alloc++;
  C.shape = (C.shape * 1099511628211ull) ^ (0x1000000ull + (uint64_t)sz);
  if (C.cur_parse < 0) C.tviol.push_back("parse_alloc called outside yaep_parse");
  return p;
}
static void cb_parse_free(void *p) {
  LibExit x;
  step();
  C.callbacks++;
  if (!p) { // NULL is no block returned by parse_alloc, and a caller's parse_free need not accept it
    C.n_free_null++;
    C.tviol.push_back("parse_free called with NULL");
    return;
  }
  auto it = C.tblocks.find(p);
  if (it == C.tblocks.end()) {
    C.tviol.push_back("parse_free of a block that is not live (never allocated by parse_alloc, or already freed)");
    return;
  }
  int expect = C.cur_parse >= 0 ? C.cur_parse : C.cur_free_tree;
  if (it->second.parse_id != expect)
    C.tviol.push_back("parse_free of a block of parse " + std::to_string(it->second.parse_id) + " during " +
                      (C.cur_parse >= 0 ? "parse " : "free_tree of parse ") + std::to_string(expect));
  C.shape = (C.shape * 1099511628211ull) ^ (0x2000000ull + (uint64_t)it->second.ord);
  if (!tree_guard_ok(p, it->second.size))
    C.tviol.push_back("write past the end of a parse_alloc block of " + std::to_string(it->second.size) + " bytes");
  memset(p, 0xDD, it->second.size);
  C.tblocks.erase(it);
  C.n_free++;
  ::free(p);
}
static void cb_termcb(struct yaep_term *t) {
  LibExit x;
  step();
  C.callbacks++;
  C.termcb_args.push_back(t);
}
}

// ------------------------------------------------------------------ live tree -> canonical DAG
struct Walker {
  bool custom;      // blocks come from the caller's parse_alloc (else default allocator)
  int parse_id;
  CanonDag dag;
  std::unordered_map<const yaep_tree_node *, int> index;
  std::unordered_map<const yaep_tree_node *, int> onstack;
  std::string err;
  long visits = 0;
  bool block(const void *p, size_t need, size_t *size) {
    if (custom) {
      auto it = C.tblocks.find(p);
      if (it == C.tblocks.end()) { err = "reachable pointer is not a live parse_alloc block"; return false; }
      if (it->second.parse_id != parse_id) { err = "reachable block belongs to another parse"; return false; }
      *size = it->second.size;
    } else if (!heap_tree_block(p, size)) { err = "reachable pointer is not a live default-allocator block"; return false; }
    if (*size < need) { err = "reachable block is too small for its node"; return false; }
    return true;
  }
  int go(const yaep_tree_node *n, int depth) {
    if (!err.empty()) return -1;
    if (!n) { err = "NULL node pointer inside the tree"; return -1; }
    if (++visits > 2000000 || depth > 20000) { err = "tree walk budget exceeded"; return -1; }
    auto it = index.find(n);
    if (it != index.end()) {
      if (onstack.count(n)) { err = "cycle in the tree"; return -1; }
      return it->second;
    }
    size_t size;
    if (!block(n, sizeof(yaep_tree_node), &size)) return -1;
    int id = (int)dag.nodes.size();
    index[n] = id;
    onstack[n] = 1;
    dag.nodes.emplace_back();
    switch ((int)n->type) {
    case YAEP_NIL: dag.nodes[(size_t)id].type = 'N'; break;
    case YAEP_ERROR: dag.nodes[(size_t)id].type = 'E'; break;
    case YAEP_TERM:
      dag.nodes[(size_t)id].type = 'T';
      dag.nodes[(size_t)id].code = n->val.term.code;
      dag.nodes[(size_t)id].attr = attr_index(n->val.term.attr);
      break;
    case YAEP_ANODE: {
      dag.nodes[(size_t)id].type = 'A';
      dag.nodes[(size_t)id].cost = n->val.anode.cost;
      const char *nm = n->val.anode.name;
      size_t nsz;
      if (!nm) { err = "abstract node without a name"; break; }
      if (!block(nm, 1, &nsz)) break;
      if (!memchr(nm, 0, nsz)) { err = "abstract node name is not terminated inside its block"; break; }
      dag.nodes[(size_t)id].name = nm;
      yaep_tree_node **ch = n->val.anode.children;
      if ((const char *)ch != (const char *)n + sizeof(yaep_tree_node)) {
        size_t csz;
        if (!block(ch, sizeof(void *), &csz)) break; // separately allocated array would be fine too
      }
      size_t maxk = ((const char *)ch == (const char *)n + sizeof(yaep_tree_node))
                        ? (size - sizeof(yaep_tree_node)) / sizeof(void *) : 1u << 20;
      std::vector<int> kids;
      size_t k = 0;
      for (;; k++) {
        if (k >= maxk) { err = "children array is not NULL-terminated inside its block"; break; }
        if (!ch[k]) break;
        int c = go(ch[k], depth + 1);
        if (c < 0) break;
        kids.push_back(c);
      }
      dag.nodes[(size_t)id].kids = kids;
      break;
    }
    case YAEP_ALT: {
      dag.nodes[(size_t)id].type = 'L';
      std::vector<int> kids;
      const yaep_tree_node *a = n;
      long guard = 0;
      while (a) {
        if (++guard > 1000000) { err = "alternative list does not end"; break; }
        if (a != n) {
          size_t s2;
          if (!block(a, sizeof(yaep_tree_node), &s2)) break;
          if ((int)a->type != YAEP_ALT) { err = "alt.next is not an alternative node"; break; }
          if (index.count(a)) { err = "alternative node shared between lists"; break; }
          index[a] = id;
        }
        if (!a->val.alt.node) { err = "alternative without a node"; break; }
        if ((int)a->val.alt.node->type == YAEP_ALT) {
          // allowed by the structure only if documented otherwise; yaep never builds it
          err = "alternative refers to an alternative";
          break;
        }
        int c = go(a->val.alt.node, depth + 1);
        if (c < 0) break;
        kids.push_back(c);
        a = a->val.alt.next;
      }
      dag.nodes[(size_t)id].kids = kids;
      break;
    }
    default: err = "node with unknown type " + std::to_string((int)n->type); break;
    }
    onstack.erase(n);
    return err.empty() ? id : -1;
  }
};

const char *kOpShort[] = {"CREATE", "SET", "DEFINE", "PARSE", "ERRQ", "WALK", "FREE_TREE", "FREE_GRAMMAR", "CONFIG"};

jmp_buf g_jmp;

// keyword of the manual for each error code (C15: message matches the code)
const char *code_keyword(int code) {
  switch (code) {
  case 1: return "memory";
  case 2: return "grammar";
  case 3: return "syntax";
  case 4: return "fixed name";
  case 5: return "repeated";
  case 6: return "negative";
  case 7: return "code";   // both routes: "repeated code" / "with different code"
  case 8: return "rules";
  case 9: return "left hand side";
  case 10: return "translation";
  case 11: return "cost";
  case 12: return "number";
  case 13: return "repeated";
  case 14: return "accessible";
  case 15: return "derive";
  case 16: return "loop";
  case 17: return "token";
  }
  return "";
}

// ------------------------------------------------------------------ one backend pass
struct Exec {
  const Plan &plan;
  const ExecOptions &opt;
  Backend be;
  const BackendApi *api;
  RunResult &res;
  std::vector<std::string> log;
  std::vector<ObjRec> objs;
  std::vector<TreeRec> trees;
  std::vector<std::vector<int>> tobjs, ttrees; // per task: live object uids / live tree indexes
  int next_uid = 0;
  int cur_op = -1;
  bool aborted = false;
  bool any_fault_fired = false;
  int prev_obj_uid = -1;
  std::map<int, long> *requests;
  std::vector<std::string> outcomes;

  Exec(const Plan &p, const ExecOptions &o, Backend b, RunResult &r)
      : plan(p), opt(o), be(b), api(b == B_C ? &vs_api_c : &vs_api_cxx), res(r), tobjs(8), ttrees(8),
        requests(b == B_C ? &r.requests_c : &r.requests_x) {}

  void logf(const char *fmt, ...) __attribute__((format(printf, 2, 3))) {
    char buf[512];
    va_list ap;
    va_start(ap, fmt);
    vsnprintf(buf, sizeof buf, fmt, ap);
    va_end(ap);
    log.push_back(buf);
  }
  void viol(const char *prop, const char *kind, const std::string &site, const std::string &detail, bool probe = false) {
    if (opt.raw) { // oracle child: a violation inside the twin is reported through its outcome
      res.log.push_back(std::string("TWINVIOL ") + prop + "/" + kind + "/" + site + " " + detail);
      return;
    }
    Violation v;
    v.prop = prop; v.kind = kind; v.site = site; v.detail = detail; v.op = cur_op; v.backend = be;
    if (cur_target_struck && v.prop != "C17") {
      // the object of this operation was struck by an allocation failure earlier: whatever goes wrong with it now
      // is the consequence of that failure (C17: "... without touching invalid memory, the object can still be ...")
      v.detail = "[" + v.prop + " on an object that was struck by an allocation failure before] " + v.detail;
      v.kind = "after_oom_" + v.kind;
      v.prop = "C17";
    }
    v.probe = probe || plan.early_free; // an early-free run as a whole is non-gating
    if (res.violations.size() < 64) res.violations.push_back(v);
  }
  void probe(const char *name) { res.stats.probes[name]++; }

  ObjRec *obj_of(int task, int ref) {
    auto &l = tobjs[(size_t)task];
    if (l.empty()) return nullptr;
    int uid = l[(size_t)(((ref % (int)l.size()) + (int)l.size()) % (int)l.size())];
    for (auto &o : objs) if (o.uid == uid) return &o;
    return nullptr;
  }
  int live_objects() { int n = 0; for (auto &o : objs) if (o.alive) n++; return n; }
  ObjRec *obj_by_uid(int uid) { for (auto &o : objs) if (o.uid == uid) return &o; return nullptr; }

  // property a memory-level problem in the op in flight belongs to
  const char *mem_prop(OpKind k, bool faulted) {
    if (faulted || any_fault_fired) return "C17";
    if (k == OP_FREE_TREE || k == OP_WALK) return "C13";
    return "C14";
  }

  template <class F> int guarded(F f) {
    set_exit_jump(&g_jmp);
    int j = setjmp(g_jmp);
    if (j == 0) {
      try {
        LibEnter e;
        f();
      } catch (std::bad_alloc &) {
        j = 3;
      }
    }
    set_exit_jump(nullptr);
    g_in_lib = 0;
    return j;
  }

  void drain_heap_violations(OpKind k, bool faulted) {
    HeapViolation hv;
    while (heap_take_violation(&hv)) {
      if (hv.kind == "cache_mismatch") viol("C09", "cache_mismatch", "build_pl", hv.detail);
      else if (hv.kind == "exit") viol(faulted ? "C17" : "C14", "exit", kOpShort[k], hv.detail);
      else if (hv.kind == "step_budget") { viol("C14", "resource_budget", kOpShort[k], hv.detail, true); probe("resource_budget_exceeded"); }
      else viol(mem_prop(k, faulted), hv.kind.c_str(), kOpShort[k], hv.detail);
    }
  }

  void check_error_codes() {
    if (opt.raw || aborted) return;
    for (auto &o : objs)
      if (o.alive && o.h) {
        int c = -999;
        int j = guarded([&] { c = api->error_code(o.h); });
        if (j) { aborted = true; return; }
        if (c != o.m.err)
          viol("C15", "error_code", "after_op", "object " + std::to_string(o.uid) + " reports error code " + std::to_string(c) +
                                                     ", the most recent failing call on it returned " + std::to_string(o.m.err));
      }
  }

  void conservation() {
    if (opt.raw) return;
    if (live_objects() == 0) {
      size_t n = heap_live_internal(be, false);
      probe("quiescent_point");
      if (n)
        viol(any_fault_fired ? "C17" : "C14", "conservation", "quiescent",
             std::to_string(n) + " internal blocks still allocated with no live grammar object:" + heap_describe_live(be, 4),
             any_fault_fired); // after a fired fault leaks are not demanded (excused blocks are not counted anyway)
    }
  }

  // ---- twin
  Plan twin_plan(const Model &m, int gidx, const Op *parse) {
    Plan tp;
    tp.mode = "twin";
    tp.cfg = plan.cfg;
    tp.cfg.poison = (uint8_t)(plan.cfg.poison ^ 0x36);
    if (tp.cfg.poison == 0) tp.cfg.poison = 0x77;
    tp.cfg.pad = (plan.cfg.pad + 1) & 3;
    tp.cfg.selfcheck = 0;
    tp.cfg.sink = 0;
    tp.cfg.salt = 1;
    tp.backends = 1;
    tp.grammars.push_back(plan.grammars[(size_t)gidx]);
    Op c; c.task = 1; c.kind = OP_CREATE;
    tp.ops.push_back(c);
    static const int defaults[6] = {1, 0, 1, 0, 1, 3};
    for (int s = 0; s < 6; s++)
      if (m.set[s] != defaults[s]) {
        Op o; o.task = 1; o.kind = OP_SET; o.setter = (Setter)s; o.value = m.set[s];
        tp.ops.push_back(o);
      }
    Op d; d.task = 1; d.kind = OP_DEFINE; d.grammar = 0;
    tp.ops.push_back(d);
    if (parse) {
      tp.inputs.push_back(plan.inputs[(size_t)parse->input]);
      Op p = *parse;
      p.task = 1; p.obj = 0; p.input = 0;
      if (p.fault.type != Fault::BADTOK && p.fault.type != Fault::EOF_AT) p.fault = Fault();
      tp.ops.push_back(p);
    }
    return tp;
  }
  bool twin_outcome(const Model &m, int gidx, const Op *parse, std::string *out) {
    if (!opt.use_twin || opt.raw) return false;
    Plan tp = twin_plan(m, gidx, parse);
    bool hit = false;
    *out = oracle_query(plan_to_text(tp), &hit);
    res.stats.twin_queries++;
    if (hit) res.stats.twin_hits++;
    return true;
  }

  static std::string field(const std::string &outcome, const char *key) {
    std::string k = std::string(" ") + key + "=";
    size_t p = (" " + outcome).find(k);
    if (p == std::string::npos) return "";
    std::string rest = (" " + outcome).substr(p + k.size());
    if (std::string(key) == "tree") return rest;
    size_t e = rest.find(' ');
    return e == std::string::npos ? rest : rest.substr(0, e);
  }

  // returns true if equal (exactly, or as denoted sets)
  bool same_outcome(const std::string &mine, const std::string &twin, std::string *why) {
    if (mine == twin) return true;
    static const char *keys[] = {"rc", "msg", "amb", "root", "syn"};
    for (const char *k : keys)
      if (field(mine, k) != field(twin, k)) { *why = std::string(k) + ": " + field(mine, k) + " vs twin " + field(twin, k); return false; }
    std::string t1 = field(mine, "tree"), t2 = field(twin, "tree");
    if (t1 != t2) {
      CanonDag d1, d2;
      if (!canon_from_text(t1, &d1) || !canon_from_text(t2, &d2)) { *why = "unparsable canonical tree"; return false; }
      std::vector<std::string> s1, s2;
      bool ok1 = canon_denotations(d1, &s1, 4096, 1000000), ok2 = canon_denotations(d2, &s2, 4096, 1000000);
      if (!ok1 || !ok2) { res.stats.undecided_large++; return true; }
      res.stats.denot_compared++;
      if (s1 != s2) { *why = "denoted tree sets differ (" + std::to_string(s1.size()) + " vs " + std::to_string(s2.size()) + " trees)"; return false; }
      return true; // shape may legitimately differ with sharing
    }
    if (field(mine, "shape") != field(twin, "shape")) { *why = "tree allocator event shape: " + field(mine, "shape") + " vs twin " + field(twin, "shape"); return false; }
    *why = "outcome strings differ";
    return false;
  }

  // ---- operations
  void op_create(const Op &op, const OpFault &hf) {
    void *h = nullptr;
    int j = guarded([&] { h = api->create(); });
    OpCounters c = heap_cur();
    bool fired = c.fault_fired;
    if (j) { aborted = true; handle_jump(op, j, fired || c.new_fault_fired); return; }
    (void)hf;
    ObjRec o;
    o.uid = next_uid++;
    o.task = op.task;
    o.h = h;
    o.alive = h != nullptr;
    if (fired) {
      any_fault_fired = true;
      res.stats.faults["alloc@CREATE"]++;
      heap_excuse_op_blocks(be, cur_op);
      if (h) viol("C17", "create_not_null", "CREATE", "an internal allocation failed but yaep_create_grammar returned an object");
      logf("op %d CREATE -> %s (alloc fault)", cur_op, h ? "object" : "NULL");
      if (h) { o.struck = true; objs.push_back(o); tobjs[(size_t)op.task].push_back(o.uid); }
      outcomes.push_back(h ? "created" : "null");
      return;
    }
    if (!h) {
      viol("C14", "create_null", "CREATE", "yaep_create_grammar returned NULL without any allocation failure");
      logf("op %d CREATE -> NULL", cur_op);
      outcomes.push_back("null");
      return;
    }
    objs.push_back(o);
    tobjs[(size_t)op.task].push_back(o.uid);
    ObjRec &r = objs.back();
    // new object: error code 0, documented defaults (peek = set, read old, set back)
    if (!opt.raw) {
      int code = -1;
      const char *msg = nullptr;
      guarded([&] { code = api->error_code(h); msg = api->error_message(h); });
      if (code != 0) viol("C15", "new_object_error_code", "CREATE", "new object reports error code " + std::to_string(code));
      if (!msg) viol("C15", "new_object_message", "CREATE", "new object has a NULL error message");
      static const int probe_vals[6] = {2, 1, 0, 1, 0, 1};
      for (int s = 0; s < 6; s++) {
        int old = -999, back = -999;
        guarded([&] { old = api->set(h, s, probe_vals[s]); back = api->set(h, s, old); });
        if (old != r.m.set[s])
          viol("C15", "default", "CREATE", std::string("default of setting ") + std::to_string(s) + " is " + std::to_string(old) +
                                               ", documented " + std::to_string(r.m.set[s]));
        if (back != probe_vals[s])
          viol("C15", "setter_return", "CREATE", "setter " + std::to_string(s) + " returned " + std::to_string(back) + " instead of the previous value " + std::to_string(probe_vals[s]));
      }
    }
    logf("op %d CREATE -> object", cur_op);
    outcomes.push_back("created");
  }

  void handle_jump(const Op &op, int j, bool faulted) {
    // the library left through exit() (j==1), the step budget (j==2) or an exception (j==3)
    if (j == 3) {
      bool newfault = heap_cur().new_fault_fired;
      viol("C17", newfault ? "bad_alloc_escapes" : "exception_escapes", kOpShort[op.kind],
           newfault ? "std::bad_alloc thrown by operator new inside the C++ library escaped from the API call"
                    : "an exception escaped from the API call",
           false);
      if (newfault) res.stats.faults["newfail"]++;
    }
    drain_heap_violations(op.kind, faulted);
    logf("op %d %s -> ABORTED (jump %d)", cur_op, kOpShort[op.kind], j);
  }

  // the six settings of an object as the setters report them (set, read the old value, set back)
  void check_settings(ObjRec *o, const char *site) {
    static const int probe_vals[6] = {2, 1, 0, 1, 0, 1};
    for (int s = 0; s < 6; s++) {
      int old = -999, back = -999;
      void *h = o->h;
      int pv = probe_vals[s];
      guarded([&] { old = api->set(h, s, pv); back = api->set(h, s, old); });
      if (old != o->m.set[s])
        viol("C15", "setting_changed", site, "setting " + std::to_string(s) + " reads " + std::to_string(old) + " after the failed call, the caller had set " + std::to_string(o->m.set[s]));
      (void)back;
    }
  }

  // a parse must not change what the setters report
  void check_settings_unchanged(ObjRec *o, const char *site) {
    static const int probe_vals[6] = {2, 1, 0, 1, 0, 1};
    for (int s = 0; s < 6; s++) {
      int old = -999, back = -999;
      void *h = o->h;
      int pv = probe_vals[s];
      guarded([&] { old = api->set(h, s, pv); back = api->set(h, s, old); });
      if (old != o->m.set[s])
        viol("C15", "setter_return", site, "after the call the setter of setting " + std::to_string(s) + " returns " + std::to_string(old) +
                                               " as previous value, the caller had set " + std::to_string(o->m.set[s]));
      (void)back;
    }
  }

  void op_set(const Op &op) {
    ObjRec *o = obj_of(op.task, op.obj);
    // setters only touch the grammar structure: they are safe (and meaningful) on an object struck by an allocation failure
    if (!o || !o->alive || !o->h) { skip(op); return; }
    int ret = -999;
    int j = guarded([&] { ret = api->set(o->h, (int)op.setter, op.value); });
    if (j) { aborted = true; handle_jump(op, j, false); return; }
    int expect = o->m.set[op.setter];
    if (ret != expect && !opt.raw)
      viol("C15", "setter_return", "SET", "setter " + std::to_string(op.setter) + " returned " + std::to_string(ret) + ", previous value was " + std::to_string(expect));
    int stored = op.value;
    if (op.setter == S_LOOKAHEAD) stored = op.value < 0 ? 0 : op.value > 2 ? 2 : op.value;
    o->m.set[op.setter] = stored;
    if (op.setter == S_LOOKAHEAD && op.value != stored) probe("lookahead_clamped");
    logf("op %d SET %d %d -> %d", cur_op, (int)op.setter, op.value, ret);
    outcomes.push_back("set " + std::to_string(ret));
  }

  void skip(const Op &op) {
    res.stats.ops_skipped++;
    logf("op %d %s -> skipped", cur_op, kOpShort[op.kind]);
    outcomes.push_back("skipped");
  }

  void op_define(const Op &op, bool faulted_op) {
    ObjRec *o = obj_of(op.task, op.obj);
    if (!o || !o->alive || !o->h) { skip(op); return; }
    const GrammarSpec &g = plan.grammars[(size_t)op.grammar];
    bool was_defined = o->m.defined, had_failed = (!o->m.defined && o->m.gidx != -1);
    int rc = -999;
    char *desc = nullptr;
    C.g = &g; C.ti = C.ri = 0;
    C.end_salt = (plan.cfg.salt >> 24) + (uint64_t)cur_op;
    if (g.text) {
      desc = (char *)::malloc(g.desc.size() + 1);
      memcpy(desc, g.desc.c_str(), g.desc.size() + 1);
    }
    int j = guarded([&] {
      rc = g.text ? api->parse_grammar(o->h, g.strict, desc) : api->read_grammar(o->h, g.strict, cb_read_terminal, cb_read_rule);
    });
    // the caller may overwrite and free everything right after the defining call (C13)
    if (desc) { memset(desc, 0x7E, g.desc.size() + 1); ::free(desc); }
    feed_release();
    C.g = nullptr;
    res.stats.callbacks += C.callbacks; C.callbacks = 0;
    OpCounters c = heap_cur();
    bool fired = c.fault_fired;
    if (j) { aborted = true; handle_jump(op, j, fired || c.new_fault_fired); return; }
    res.stats.defines++;
    std::string msg;
    int code = 0;
    const char *mp = nullptr;
    guarded([&] { code = api->error_code(o->h); mp = api->error_message(o->h); });
    msg = mp ? mp : "(null)";
    std::string outcome = "rc=" + std::to_string(rc) + " msg=" + (rc ? esc(msg) : std::string("-"));
    outcomes.push_back(outcome);
    if (fired) {
      any_fault_fired = true;
      res.stats.faults[g.text ? "alloc@DEFINE/text" : "alloc@DEFINE/read"]++;
      heap_excuse_op_blocks(be, cur_op);
      if (rc == 0) probe("oom_survived_define");
      if (rc != YAEP_NO_MEMORY && rc != 0)
        viol("C17", "no_memory_not_reported", "DEFINE", "an internal allocation failed, the definition returned " + std::to_string(rc));
      if (rc == YAEP_NO_MEMORY) {
        if (code != YAEP_NO_MEMORY) viol("C17", "error_code_after_oom", "DEFINE", "yaep_error_code is " + std::to_string(code) + " after YAEP_NO_MEMORY");
        o->m.err = YAEP_NO_MEMORY; o->m.defined = false; o->m.gidx = op.grammar; o->struck = true;
        check_settings(o, "DEFINE");
        logf("op %d DEFINE -> rc=1 (alloc fault)", cur_op);
        return;
      }
    }
    if (opt.raw) {
      if (rc == 0) { o->m.defined = true; o->m.codes = std::set<int>(g.codes.begin(), g.codes.end()); } else o->m.defined = false;
      o->m.gidx = op.grammar;
      return;
    }
    // model
    if (rc == 0) {
      res.stats.defines_ok++;
      o->m.defined = true;
      o->m.codes = std::set<int>(g.codes.begin(), g.codes.end());
      if (was_defined) probe("redefinition");
      if (had_failed) probe("define_after_failed_define");
    } else {
      o->m.defined = false;
      o->m.err = rc;
      res.stats.faults["defective_definition/" + std::to_string(rc)]++;
      if (was_defined) probe("failed_redefinition");
      if (code != rc) viol("C15", "error_code", "DEFINE", "definition returned " + std::to_string(rc) + " but yaep_error_code is " + std::to_string(code));
      check_message(rc, msg, "DEFINE");
    }
    o->m.gidx = op.grammar;
    if (g.expect >= 0 && rc != g.expect && !fired) {
      probe("annotation_mismatch");
      viol("C15", "annotated_rc", "DEFINE", "definition '" + g.tag + "' returned " + std::to_string(rc) + ", its documented error class is " + std::to_string(g.expect), true);
    }
    // fresh twin
    std::string tw;
    Model fresh = o->m;
    if (twin_outcome(fresh, op.grammar, nullptr, &tw)) {
      std::string why;
      if (tw.compare(0, 5, "CRASH") == 0 || tw.compare(0, 8, "TWINVIOL") == 0)
        viol("C14", "twin_failed", "DEFINE", "the same definition on a fresh object in a pristine process failed: " + tw);
      else if (tw != outcome)
        viol("C14", "define_differs_from_fresh", "DEFINE", "got " + outcome + ", fresh object gives " + tw);
    }
    logf("op %d DEFINE g=%s -> %s", cur_op, g.tag.c_str(), outcome.c_str());
    (void)faulted_op;
  }

  void check_message(int rc, const std::string &msg, const char *site) {
    if (msg.empty()) viol("C15", "empty_message", site, "yaep_error_message is empty after error " + std::to_string(rc));
    if (msg.size() > 200) viol("C15", "message_too_long", site, "error message longer than 200 characters");
    const char *kw = code_keyword(rc);
    if (*kw && msg.find(kw) == std::string::npos)
      viol("C15", "message_mismatch", site, "message '" + msg + "' does not describe error " + std::to_string(rc) + " (expected to mention '" + kw + "')");
  }

  void op_parse(const Op &op) {
    ObjRec *o = obj_of(op.task, op.obj);
    if (!o || !o->alive || !o->h) { skip(op); return; }
    const std::vector<int> &in = plan.inputs[(size_t)op.input];
    // reader with its faults
    C.toks = in;
    C.tpos = 0;
    C.eof_at = -1;
    C.eof_calls = 0;
    if (op.fault.type == Fault::BADTOK) {
      size_t pos = (size_t)op.fault.k;
      if (pos >= C.toks.size()) C.toks.push_back(op.fault.code);
      else C.toks[pos] = op.fault.code;
    } else if (op.fault.type == Fault::EOF_AT)
      C.eof_at = op.fault.k;
    if (C.toks.size() > 4000) C.toks.resize(4000);
    C.syn.clear();
    C.bad_attr = false;
    C.cur_parse = cur_op;
    C.next_ord = 0;
    C.shape = 1469598103934665603ull;
    C.n_alloc = C.n_free = C.n_free_null = 0;
    C.tviol.clear();
    C.poison = plan.cfg.poison;
    C.end_code = kEndCodes[((plan.cfg.salt >> 20) + (uint64_t)cur_op * 5) % 6];
    vs_parse_alloc_t pa = nullptr;
    vs_parse_free_t pf = nullptr;
    switch (op.alloc) {
    case AM_CUSTOM_FREE: pa = cb_parse_alloc; pf = cb_parse_free; break;
    case AM_CUSTOM_NOFREE: pa = cb_parse_alloc; break;
    case AM_DEFAULT: break;
    case AM_NULL_FREE: pf = cb_parse_free; break;
    }
    yaep_tree_node *root = (yaep_tree_node *)(uintptr_t)0x1; // must be overwritten
    int amb = -7, rc = -999;
    g_pl_last = g_pl_toks = -1;
    bool second_la2 = false;
    if (o->m.defined && o->m.set[0] == 2) { probe("parse_lookahead2"); second_la2 = true; }
    int j = guarded([&] { rc = api->parse(o->h, cb_read_token, cb_syntax_error, pa, pf, &root, &amb); });
    C.cur_parse = -1;
    check_tree_guards(cur_op);
    res.stats.callbacks += C.callbacks; C.callbacks = 0;
    OpCounters c = heap_cur();
    bool fired = c.fault_fired || c.tree_fault_fired;
    if (j) { aborted = true; handle_jump(op, j, fired || c.new_fault_fired); return; }
    (void)second_la2;
    res.stats.parses++;
    std::string msg;
    int code = 0;
    const char *mp = nullptr;
    guarded([&] { code = api->error_code(o->h); mp = api->error_message(o->h); });
    msg = mp ? mp : "(null)";
    // what the reader actually delivered
    // Known finding (DESIGN.md §7, KF-1): after error recovery the parser list can be longer than the token list
    // (an error shift adds a set without consuming a token); make_parse then indexes the token array and its
    // terminal-node array with parser-list indexes that run past the tokens, and the result depends on memory
    // outside the arrays.  Hook H6 reports exactly that access.  Such a parse is not judged, its tree is not used.
    if (rc == 0 && g_pl_toks >= 0) {
      probe("kf1_parse_not_judged");
      release_parse_blocks(cur_op);
      logf("op %d PARSE -> not judged (known finding KF-1: parser list longer than the token list after error recovery)", cur_op);
      outcomes.push_back("rc=0 tainted");
      res.stats.parses--;
      return;
    }
    // canonical outcome
    std::ostringstream oc;
    oc << "rc=" << rc << " msg=" << (rc ? esc(msg) : std::string("-")) << " amb=" << (rc ? 0 : amb) << " root=" << (rc == 0 && root ? 1 : 0) << " syn=[";
    for (auto &s : C.syn) oc << "(" << s.tok << "," << s.a1 << "," << s.start << "," << s.a2 << "," << s.stop << "," << s.a3 << ")";
    oc << "]";
    TreeRec tr;
    tr.task = op.task; tr.parse_id = cur_op; tr.mode = op.alloc; tr.obj_uid = o->uid; tr.root = nullptr;
    std::string walk_err;
    if (rc == 0 && root == (yaep_tree_node *)(uintptr_t)0x1) { walk_err = "*root was not set"; root = nullptr; }
    if (rc == 0 && root) {
      Walker w;
      w.custom = (op.alloc == AM_CUSTOM_FREE || op.alloc == AM_CUSTOM_NOFREE);
      w.parse_id = cur_op;
      w.go(root, 0);
      if (!w.err.empty()) walk_err = w.err;
      else {
        tr.canon = canon_to_text(w.dag);
        tr.valid = true;
        for (auto &n : w.dag.nodes) {
          if (n.type == 'T') tr.nterm++;
          if (n.type == 'L') probe("alt_node");
          if (n.type == 'E') probe("error_node_in_tree");
          if (n.type == 'N') probe("nil_node_in_tree");
        }
      }
      tr.root = root;
    }
    oc << " shape=" << std::hex << C.shape << std::dec << " allocs=" << C.n_alloc << " frees=" << C.n_free << " tree=" << tr.canon;
    std::string outcome = oc.str();
    outcomes.push_back(outcome);
    if (!C.syn.empty()) probe("syntax_error_reported");
    if (C.n_free > 0) probe("parse_freed_nodes");
    if (c.cache_hits) probe("goto_cache_hit");
    if (c.cache_vetoes) probe("goto_cache_vetoed");
    if (c.hash_expands) probe("hash_table_expanded");
    if (c.realloc_moves) probe("realloc_moved");
    if (c.sink_errors) { probe("sink_error"); res.stats.faults["sink_error"]++; }

    if (fired) {
      any_fault_fired = true;
      res.stats.faults[c.tree_fault_fired ? "treealloc@PARSE" : "alloc@PARSE"]++;
      heap_excuse_op_blocks(be, cur_op);
      if (rc == 0) probe("oom_survived_parse");
      if (rc != YAEP_NO_MEMORY && rc != 0)
        viol("C17", "no_memory_not_reported", "PARSE", "an internal allocation failed, yaep_parse returned " + std::to_string(rc));
      if (rc == YAEP_NO_MEMORY) {
        if (code != YAEP_NO_MEMORY) viol("C17", "error_code_after_oom", "PARSE", "yaep_error_code is " + std::to_string(code) + " after YAEP_NO_MEMORY");
        if (root && root != (yaep_tree_node *)(uintptr_t)0x1) probe("root_not_null_after_oom");
        o->m.err = YAEP_NO_MEMORY;
        o->struck = true;
        check_settings(o, "PARSE");
        // tree blocks of the failed parse are unreachable for the caller: release them here
        release_parse_blocks(cur_op);
        logf("op %d PARSE -> rc=1 (alloc fault)", cur_op);
        return;
      }
    }
    if (opt.raw) {
      if (rc == 0 && tr.root) { trees.push_back(tr); ttrees[(size_t)op.task].push_back((int)trees.size() - 1); }
      if (!walk_err.empty()) outcomes.back() += " WALKERR=" + walk_err;
      for (auto &s : C.tviol) outcomes.back() += " TVIOL=" + s;
      return;
    }
    // ---- C13: pairing / reachability
    for (auto &s : C.tviol) viol("C13", "alloc_free_pairing", "PARSE", s);
    if (C.bad_attr) probe("syntax_error_attr_not_a_token_attr");
    if (!walk_err.empty()) viol("C13", "reachability", "PARSE", walk_err);
    if (C.n_free_null) probe("parse_free_null");
    if (rc != 0) {
      size_t left = 0;
      for (auto &kv : C.tblocks) if (kv.second.parse_id == cur_op) left++;
      left += heap_tree_live_of_op(be, cur_op);
      if (left) {
        viol("C13", "blocks_after_failed_parse", "PARSE", std::to_string(left) + " tree blocks allocated by a parse that returned " + std::to_string(rc));
        release_parse_blocks(cur_op);
      }
    }
    // ---- C15: model
    std::set<int> accept;
    bool undefined = !o->m.defined, nullalloc = (op.alloc == AM_NULL_FREE);
    long first_bad = -1;
    for (size_t i = 0; i < C.toks.size() && (long)i != C.eof_at; i++) {
      if (C.toks[i] < 0) break;
      if (!o->m.codes.count(C.toks[i])) { first_bad = (long)i; break; }
    }
    if (undefined && !nullalloc && o->m.gidx != -1 && rc != YAEP_UNDEFINED_OR_BAD_GRAMMAR && !fired)
      viol("C14", "usable_after_failed_definition", "PARSE", "the last definition of the object failed, yaep_parse returned " + std::to_string(rc) +
                                                                 " instead of YAEP_UNDEFINED_OR_BAD_GRAMMAR");
    if (nullalloc) accept.insert(YAEP_NO_MEMORY);
    if (undefined) accept.insert(YAEP_UNDEFINED_OR_BAD_GRAMMAR);
    if (!undefined && first_bad >= 0) accept.insert(YAEP_INVALID_TOKEN_CODE);
    if (accept.empty()) {
      if (rc == YAEP_INVALID_TOKEN_CODE) viol("C15", "invalid_token_spurious", "PARSE", "YAEP_INVALID_TOKEN_CODE although every delivered code is a declared terminal code");
      else if (rc == YAEP_UNDEFINED_OR_BAD_GRAMMAR) viol("C15", "undefined_spurious", "PARSE", "YAEP_UNDEFINED_OR_BAD_GRAMMAR although the grammar is defined");
      else if (rc == YAEP_NO_MEMORY) viol("C15", "no_memory_spurious", "PARSE", "YAEP_NO_MEMORY without an allocation failure or NULL allocator");
    } else if (!accept.count(rc)) {
      std::string want;
      for (int a : accept) want += (want.empty() ? "" : " or ") + std::to_string(a);
      viol("C15", first_bad >= 0 && !undefined && !nullalloc ? "invalid_token_missed" : undefined ? "undefined_missed" : "null_alloc_missed",
           "PARSE", "yaep_parse returned " + std::to_string(rc) + ", documented result is " + want +
                        (first_bad >= 0 ? " (undeclared code " + std::to_string(C.toks[(size_t)first_bad]) + " at position " + std::to_string(first_bad) + ")" : ""));
    }
    // "a negative code ends the input": the reader is asked until it delivers a negative code (or an invalid one)
    if (!undefined && !nullalloc && !fired) {
      size_t want = first_bad >= 0 ? (size_t)first_bad + 1 : (C.eof_at >= 0 && (size_t)C.eof_at < C.toks.size() ? (size_t)C.eof_at : C.toks.size());
      if (C.tpos != want || (first_bad < 0 && C.eof_calls != 1))
        viol("C15", "input_not_read_to_end", "PARSE", "read_token was asked for " + std::to_string(C.tpos) + " tokens and " + std::to_string(C.eof_calls) +
                                                          " end markers; the input has " + std::to_string(want) + " tokens before its " +
                                                          (first_bad >= 0 ? "first invalid code" : "end"));
    }
    if (!fired && o->alive && o->h) check_settings_unchanged(o, "PARSE");
    if (rc != 0) {
      res.stats.faults[rc == 17 ? "invalid_token" : rc == 2 ? "parse_undefined" : rc == 1 ? "null_alloc_misuse" : "parse_error_other"]++;
      if (code != rc) viol("C15", "error_code", "PARSE", "yaep_parse returned " + std::to_string(rc) + " but yaep_error_code is " + std::to_string(code));
      o->m.err = rc;
      check_message(rc, msg, "PARSE");
      if (rc == 17) {
        if (!C.syn.empty()) viol("C15", "syntax_error_on_invalid_token", "PARSE", "syntax_error was called for a parse that returned YAEP_INVALID_TOKEN_CODE");
        if (first_bad >= 0 && msg.find(std::to_string(C.toks[(size_t)first_bad])) == std::string::npos)
          viol("C15", "message_mismatch", "PARSE", "message '" + msg + "' does not name the invalid code " + std::to_string(C.toks[(size_t)first_bad]));
        if (first_bad >= 0 && o->m.codes.size() > 1 && C.toks[(size_t)first_bad] > *o->m.codes.begin() && C.toks[(size_t)first_bad] < *o->m.codes.rbegin())
          probe("invalid_code_inside_declared_range");
      }
      if (root && root != (yaep_tree_node *)(uintptr_t)0x1) probe("root_not_null_on_error");
    } else {
      res.stats.parses_ok++;
      if (op.fault.type == Fault::EOF_AT) res.stats.faults["early_eof"]++;
    }
    if (!undefined && !nullalloc && !fired) c09_group_check(op, o, outcome);
    // ---- C14: fresh twin
    if (!undefined && !nullalloc && !fired) {
      std::string tw;
      if (twin_outcome(o->m, o->m.gidx, &op, &tw)) {
        std::string why;
        if (tw.compare(0, 5, "CRASH") == 0 || tw.find("TWINVIOL") != std::string::npos || tw.find("WALKERR") != std::string::npos || tw.find("TVIOL") != std::string::npos)
          viol("C14", "twin_failed", "PARSE", "the same parse on a fresh object in a pristine process failed: " + tw.substr(0, 300));
        else if (!same_outcome(outcome, tw, &why))
          viol("C14", "parse_differs_from_fresh", "PARSE", why);
      }
    }
    if (rc == 0 && tr.root) {
      trees.push_back(tr);
      ttrees[(size_t)op.task].push_back((int)trees.size() - 1);
      res.stats.trees++;
      if (o->m.set[3]) probe("cost_flag_parse");
      if (!o->m.set[2]) probe("all_parses");
    } else if (rc == 0) {
      probe("null_root_without_recovery");
      // nothing was returned: no block of this parse may stay allocated when a parse_free was given
      if (op.alloc == AM_CUSTOM_FREE || op.alloc == AM_DEFAULT) {
        size_t left = 0;
        for (auto &kv : C.tblocks) if (kv.second.parse_id == cur_op) left++;
        left += heap_tree_live_of_op(be, cur_op);
        if (left) { viol("C13", "blocks_without_tree", "PARSE", std::to_string(left) + " blocks stay allocated although no tree was returned"); }
      }
      release_parse_blocks(cur_op);
    }
    logf("op %d PARSE in=%d alloc=%d -> %s", cur_op, op.input, (int)op.alloc, outcome.substr(0, 400).c_str());
    logf("  treehash %llx", (unsigned long long)fnv1a(outcome));
  }

  void release_parse_blocks(int parse_id) {
    std::vector<const void *> v;
    for (auto &kv : C.tblocks) if (kv.second.parse_id == parse_id) v.push_back(kv.first);
    for (const void *p : v) { C.tblocks.erase(p); ::free((void *)p); }
    heap_drop_tree_of_op(be, parse_id);
  }

  void op_errq(const Op &op) {
    ObjRec *o = obj_of(op.task, op.obj);
    if (!o || !o->alive) { skip(op); return; }
    int code = -999;
    std::string msg;
    const char *mp = nullptr;
    int j = guarded([&] { code = api->error_code(o->h); mp = api->error_message(o->h); });
    msg = mp ? mp : "(null)";
    if (j) { aborted = true; handle_jump(op, j, false); return; }
    if (!opt.raw) {
      if (code != o->m.err) viol("C15", "error_code", "ERRQ", "yaep_error_code is " + std::to_string(code) + ", most recent failing call returned " + std::to_string(o->m.err));
      if (o->m.err != 0) check_message(o->m.err, msg, "ERRQ");
      if (msg.size() > 200) viol("C15", "message_too_long", "ERRQ", "message not terminated within 200 bytes");
    }
    logf("op %d ERRQ -> %d %s", cur_op, code, esc(msg).c_str());
    outcomes.push_back("errq " + std::to_string(code));
  }

  TreeRec *tree_of(int task, int ref, int *slot) {
    auto &l = ttrees[(size_t)task];
    if (l.empty()) return nullptr;
    int s = ((ref % (int)l.size()) + (int)l.size()) % (int)l.size();
    *slot = s;
    return &trees[(size_t)l[(size_t)s]];
  }

  bool rewalk(TreeRec &t, const char *site, const Op &op) {
    if (!t.valid) return true;
    Walker w;
    w.custom = (t.mode == AM_CUSTOM_FREE || t.mode == AM_CUSTOM_NOFREE);
    w.parse_id = t.parse_id;
    w.go(t.root, 0);
    ObjRec *o = obj_by_uid(t.obj_uid);
    bool grammar_gone = !(o && o->alive);
    if (grammar_gone) probe("tree_walked_after_grammar_freed");
    if (!w.err.empty()) { viol("C13", "tree_invalid_later", site, w.err + (grammar_gone ? " (after yaep_free_grammar)" : "")); return false; }
    if (canon_to_text(w.dag) != t.canon) {
      viol("C13", "tree_changed", site, std::string("the tree returned by yaep_parse reads differently now") + (grammar_gone ? " (after yaep_free_grammar)" : ""));
      return false;
    }
    (void)op;
    return true;
  }

  void op_walk(const Op &op) {
    int slot;
    TreeRec *t = tree_of(op.task, op.tree, &slot);
    if (!t) { skip(op); return; }
    bool ok = rewalk(*t, "WALK", op);
    logf("op %d WALK -> %s", cur_op, ok ? "same" : "DIFFERENT");
    outcomes.push_back("walk");
  }

  void op_free_tree(const Op &op) {
    int slot;
    TreeRec *t = tree_of(op.task, op.tree, &slot);
    if (!t) { skip(op); return; }
    ObjRec *o = obj_by_uid(t->obj_uid);
    bool early = o && o->alive;
    if (early && !plan.early_free) { skip(op); return; }
    if (early) probe("free_tree_before_grammar");
    bool ok = rewalk(*t, "FREE_TREE", op);
    TreeRec tr = *t;
    ttrees[(size_t)op.task].erase(ttrees[(size_t)op.task].begin() + slot);
    if (tr.mode == AM_CUSTOM_NOFREE) {
      // documented: such a tree must not be given to yaep_free_tree; the caller releases the blocks
      release_parse_blocks(tr.parse_id);
      probe("nofree_tree_released_by_caller");
      logf("op %d FREE_TREE -> caller-released", cur_op);
      outcomes.push_back("free_tree caller");
      return;
    }
    if (!ok || !tr.valid) { // do not hand a corrupt tree to the library
      release_parse_blocks(tr.parse_id);
      logf("op %d FREE_TREE -> not attempted", cur_op);
      outcomes.push_back("free_tree none");
      return;
    }
    C.termcb_args.clear();
    C.tviol.clear();
    C.cur_free_tree = tr.parse_id;
    C.n_free = C.n_free_null = 0;
    bool with_cb = (tr.parse_id % 3) != 0;
    vs_parse_free_t pf = tr.mode == AM_CUSTOM_FREE ? cb_parse_free : nullptr;
    int j = guarded([&] { api->free_tree(tr.root, pf, with_cb ? cb_termcb : nullptr); });
    C.cur_free_tree = -1;
    res.stats.callbacks += C.callbacks; C.callbacks = 0;
    if (j) { aborted = true; handle_jump(op, j, false); return; }
    if (!opt.raw) {
      for (auto &s : C.tviol) viol("C13", "alloc_free_pairing", "FREE_TREE", s);
      size_t left = 0;
      if (tr.mode == AM_CUSTOM_FREE) { for (auto &kv : C.tblocks) if (kv.second.parse_id == tr.parse_id) left++; }
      else left = heap_tree_live_of_op(be, tr.parse_id);
      if (left) {
        viol("C13", "blocks_unreleased", "FREE_TREE", std::to_string(left) + " blocks of the parse are still allocated after yaep_free_tree");
        release_parse_blocks(tr.parse_id);
      }
      if (with_cb) {
        std::set<const void *> uniq(C.termcb_args.begin(), C.termcb_args.end());
        if ((int)C.termcb_args.size() != tr.nterm || (int)uniq.size() != tr.nterm)
          viol("C13", "termcb_count", "FREE_TREE", "terminal callback called " + std::to_string(C.termcb_args.size()) + " times (" +
                                                       std::to_string(uniq.size()) + " distinct) for " + std::to_string(tr.nterm) + " TERM nodes");
      }
      if (C.n_free_null) probe("free_tree_parse_free_null");
      probe(early ? "tree_freed_early" : "tree_freed_after_grammar");
    }
    logf("op %d FREE_TREE -> freed termcb=%zu", cur_op, C.termcb_args.size());
    outcomes.push_back("free_tree");
  }

  void op_free_grammar(const Op &op) {
    ObjRec *o = obj_of(op.task, op.obj);
    if (!o || !o->alive) { skip(op); return; }
    if (prev_obj_uid >= 0 && prev_obj_uid != o->uid) probe("free_of_non_current_grammar");
    if (o->struck) probe("free_after_oom");
    int j = guarded([&] { api->destroy(o->h); });
    if (j) { aborted = true; handle_jump(op, j, o->struck); return; }
    o->alive = false;
    o->h = nullptr;
    auto &l = tobjs[(size_t)o->task];
    l.erase(std::remove(l.begin(), l.end(), o->uid), l.end());
    logf("op %d FREE_GRAMMAR -> done", cur_op);
    outcomes.push_back("free_grammar");
    conservation();
  }

  void run_op(const Op &op, int index) {
    cur_op = index;
    if (aborted) return;
    if (opt.announce_ops && opt.announce_fd >= 0) {
      char b[128];
      int n = snprintf(b, sizeof b, "OPBEGIN %d %s be=%d fault=%d\n", index, kOpShort[op.kind], (int)be, (int)op.fault.type);
      if (write(opt.announce_fd, b, (size_t)n) < 0) {}
    }
    C.announce_fd = opt.announce_ops ? opt.announce_fd : -1;
    g_announce_fd = C.announce_fd;
    OpFault hf;
    bool faulted = false;
    if (op.fault.type == Fault::ALLOC) { hf.alloc_k = (be == B_CXX && op.fault.kx) ? op.fault.kx : op.fault.k; faulted = true; }
    else if (op.fault.type == Fault::ALLOC_STICKY) { hf.alloc_k = op.fault.k; hf.alloc_sticky = true; faulted = true; }
    else if (op.fault.type == Fault::TREEALLOC) { hf.tree_k = op.fault.k; faulted = true; }
    else if (op.fault.type == Fault::NEWFAIL) { hf.new_k = op.fault.k; faulted = true; }
    heap_begin_op(be, index, hf);
    sink_open();
    res.stats.ops++;
    ObjRec *target = (op.kind == OP_CREATE || op.kind == OP_WALK || op.kind == OP_FREE_TREE || op.kind == OP_CONFIG) ? nullptr : obj_of(op.task, op.obj);
    int target_uid = target ? target->uid : -1;
    cur_target_struck = target && target->struck;
    if (cur_target_struck && op.kind != OP_FREE_GRAMMAR && op.kind != OP_ERRQ && op.kind != OP_SET) probe("object_used_again_after_oom");
    uint64_t pre = target ? (uint64_t)(target->m.defined * 2 + (target->m.err != 0)) * 16 + (uint64_t)target->m.set[0] : 99;
    switch (op.kind) {
    case OP_CREATE: op_create(op, hf); break;
    case OP_SET: op_set(op); break;
    case OP_DEFINE: op_define(op, faulted); break;
    case OP_PARSE: op_parse(op); break;
    case OP_ERRQ: op_errq(op); break;
    case OP_WALK: op_walk(op); break;
    case OP_FREE_TREE: op_free_tree(op); break;
    case OP_FREE_GRAMMAR: op_free_grammar(op); break;
    case OP_CONFIG:
      heap_set_knobs(op.c_knobs, op.c_cache_skip, op.c_selfcheck, op.c_realloc, op.c_sink);
      cfg_now = "k" + std::to_string(op.c_knobs) + "/c" + std::to_string(op.c_cache_skip) + "/r" + std::to_string(op.c_realloc);
      probe("config_flipped_mid_run");
      outcomes.push_back("config");
      break;
    }
    OpCounters c = heap_end_op();
    if (opt.raw && index < (int)plan.ops.size()) {
      if ((int)res.outcomes.size() < (int)plan.ops.size()) res.outcomes.resize(plan.ops.size());
      res.outcomes[(size_t)index] = outcomes.empty() ? "" : outcomes.back();
    }
    (*requests)[index] = c.requests;
    res.stats.alloc_events += c.requests + c.frees + c.tree_requests + c.new_requests;
    drain_heap_violations(op.kind, faulted && (c.fault_fired || c.tree_fault_fired || c.new_fault_fired));
    if (!aborted) check_error_codes();
    // abstract history (distinct interleavings measure)
    std::string oc = outcomes.empty() ? "" : outcomes.back().substr(0, outcomes.back().find(' ', 0) == std::string::npos ? outcomes.back().size() : outcomes.back().find(' ', 3));
    uint64_t tri = fnv1a(std::to_string(pre) + "|" + std::to_string((int)op.kind) + "|" + oc + "|" + std::to_string((int)op.alloc) + "|" + std::to_string((int)op.fault.type));
    res.stats.triples.insert(tri);
    if (target_uid >= 0 && prev_obj_uid >= 0 && prev_obj_uid != target_uid)
      res.stats.adjacencies.insert(fnv1a(std::to_string(prev_kind) + ">" + std::to_string((int)op.kind)));
    res.stats.shape_hash = fnv1a(std::to_string(op.task) + ":" + std::to_string(tri), res.stats.shape_hash ? res.stats.shape_hash : 1469598103934665603ull);
    if (target_uid >= 0) { prev_obj_uid = target_uid; prev_kind = (int)op.kind; }
  }
  int prev_kind = -1;
  bool cur_target_struck = false;
  std::string cfg_now = "plan";
  // C09: parses of one (grammar, input, result-selecting flags) must agree whatever the lookahead level,
  // debug level and the simulator's internal choices were
  struct GroupRef { std::string outcome; int op; int la, dbg; std::string cfg; };
  std::map<std::string, GroupRef> groups;
  void c09_group_check(const Op &op, const ObjRec *o, const std::string &outcome) {
    if (opt.raw) return;
    std::ostringstream k;
    k << o->m.gidx << "|" << op.input << "|" << (o->m.set[2] != 0) << "|" << (o->m.set[3] != 0) << "|" << (o->m.set[4] != 0) << "|" << o->m.set[5]
      << "|" << (int)op.alloc << "|" << (int)op.fault.type << ":" << op.fault.k << ":" << op.fault.code;
    auto it = groups.find(k.str());
    if (it == groups.end()) { groups[k.str()] = GroupRef{outcome, cur_op, o->m.set[0], o->m.set[1], cfg_now}; return; }
    probe("c09_group_compared");
    std::string why;
    if (!same_outcome(outcome, it->second.outcome, &why)) {
      std::string site;
      if (it->second.la != o->m.set[0]) site += "lookahead";
      if (it->second.dbg != o->m.set[1]) site += (site.empty() ? "" : "+") + std::string("debug");
      if (it->second.cfg != cfg_now) site += (site.empty() ? "" : "+") + std::string("internal-choices");
      if (site.empty()) site = "repeat";
      viol("C09", "outcome_differs", site, "parse at op " + std::to_string(cur_op) + " (lookahead " + std::to_string(o->m.set[0]) + ", debug " +
           std::to_string(o->m.set[1]) + ", " + cfg_now + ") differs from op " + std::to_string(it->second.op) + " (lookahead " +
           std::to_string(it->second.la) + ", debug " + std::to_string(it->second.dbg) + ", " + it->second.cfg + "): " + why);
    } else if (it->second.la != o->m.set[0]) probe("c09_lookahead_levels_agree");
  }

  void run() {
    int n = (int)plan.ops.size();
    for (int i = 0; i < n && !aborted; i++) run_op(plan.ops[(size_t)i], i);
    // implicit tail: every grammar is freed, then every tree (checked like any other operation)
    int idx = n;
    for (int t = 0; t < 8 && !aborted; t++)
      while (!tobjs[(size_t)t].empty() && !aborted) {
        Op o; o.task = t; o.kind = OP_FREE_GRAMMAR; o.obj = 0;
        run_op(o, idx++);
      }
    for (int t = 0; t < 8 && !aborted; t++)
      while (!ttrees[(size_t)t].empty() && !aborted) {
        Op o; o.task = t; o.kind = OP_FREE_TREE; o.tree = 0;
        run_op(o, idx++);
      }
    if (!aborted && !opt.raw) {
      // history check: nothing of the caller's tree memory is left
      if (!C.tblocks.empty()) {
        viol("C13", "blocks_unreleased", "END", std::to_string(C.tblocks.size()) + " parse_alloc blocks never released");
      }
      size_t tl = heap_live_tree(be);
      if (tl && !any_fault_fired) viol("C13", "blocks_unreleased", "END", std::to_string(tl) + " default-allocator tree blocks never released");
    }
    // drop whatever is left so that the next pass / run starts clean
    for (auto &kv : C.tblocks) ::free((void *)kv.first);
    C.tblocks.clear();
  }
};

} // namespace

RunResult execute_plan(const Plan &plan_in, const ExecOptions &opt) {
  RunResult res;
  Plan plan = plan_in;
  // resolve fractional allocation faults with a fault-free first pass
  bool has_frac = false;
  for (auto &o : plan.ops) if (o.fault.type == Fault::ALLOC_FRAC) has_frac = true;
  if (has_frac) {
    Plan p0 = plan;
    for (auto &o : p0.ops) if (o.fault.type == Fault::ALLOC_FRAC) o.fault = Fault();
    ExecOptions o0 = opt;
    o0.keep_log = false;
    RunResult r0 = execute_plan(p0, o0);
    for (auto &v : r0.violations) res.violations.push_back(v);
    res.stats.merge(r0.stats);
    if (r0.stats.probes.count("run_aborted")) { // the library was left by a jump: it must not be used again in this process
      res.log_hash = r0.log_hash;
      res.resolved = plan_in;
      return res;
    }
    for (size_t i = 0; i < plan.ops.size(); i++) {
      Op &o = plan.ops[i];
      if (o.fault.type != Fault::ALLOC_FRAC) continue;
      long nc = r0.requests_c.count((int)i) ? r0.requests_c[(int)i] : 0;
      long nx = r0.requests_x.count((int)i) ? r0.requests_x[(int)i] : 0;
      int frac = o.fault.frac;
      o.fault = Fault();
      if (nc > 0 || nx > 0) {
        o.fault.type = Fault::ALLOC;
        o.fault.k = nc > 0 ? 1 + (long)frac * nc / 1000 : 1;
        o.fault.kx = nx > 0 ? 1 + (long)frac * nx / 1000 : 0;
      }
    }
  }
  res.resolved = plan;
  std::vector<std::string> logs[2];
  bool any_aborted = false;
  uint64_t h = 1469598103934665603ull;
  for (int b = 0; b < 2; b++) {
    if (!(plan.backends & (1 << b))) continue;
    heap_reset_run(plan.cfg);
    Exec ex(plan, opt, (Backend)b, res);
    ex.run();
    logs[b] = ex.log;
    for (auto &l : ex.log) h = fnv1a(l, h);
    if (ex.aborted) { res.stats.probes["run_aborted"]++; any_aborted = true; }
    heap_forget_all();
    if (ex.aborted) break;
  }
  bool alloc_faults = false;
  for (auto &o : plan.ops)
    if (o.fault.type == Fault::ALLOC || o.fault.type == Fault::ALLOC_STICKY || o.fault.type == Fault::TREEALLOC || o.fault.type == Fault::NEWFAIL)
      alloc_faults = true;
  // C16: a violation that only the C++ library shows is a difference between the two interfaces
  if (!opt.raw && plan.backends == 3 && !any_aborted && !alloc_faults) {
    std::set<std::string> in_c;
    for (auto &v : res.violations) if (v.backend == 0) in_c.insert(v.cls() + "@" + std::to_string(v.op));
    std::vector<Violation> extra;
    for (auto &v : res.violations)
      if (v.backend == 1 && v.prop != "C16" && !in_c.count(v.cls() + "@" + std::to_string(v.op))) {
        Violation x = v;
        x.prop = "C16";
        x.kind = "cxx_only_" + v.kind;
        x.detail = "only the C++ library: [" + v.prop + "] " + v.detail;
        extra.push_back(x);
      }
    for (auto &x : extra) res.violations.push_back(x);
  }
  // C16: both libraries must have produced the same history.  Not with allocation faults in the plan: the two
  // libraries legitimately issue different numbers of requests, so the k-th request is not the same event.
  if (!opt.raw && plan.backends == 3 && !any_aborted && !alloc_faults) {
    size_t n = std::min(logs[0].size(), logs[1].size());
    size_t i = 0;
    for (; i < n; i++) if (logs[0][i] != logs[1][i]) break;
    if (i < n || logs[0].size() != logs[1].size()) {
      Violation v;
      v.prop = "C16"; v.kind = "c_vs_cxx"; v.site = "history";
      v.detail = i < n ? "first difference: C: " + logs[0][i].substr(0, 200) + " | C++: " + logs[1][i].substr(0, 200)
                       : "histories have different lengths";
      // name the op of the first differing line
      if (i < n) { int opn = -1; sscanf(logs[0][i].c_str(), "op %d", &opn); v.op = opn; }
      v.backend = 1;
      res.violations.push_back(v);
    }
  }
  res.log_hash = h;
  if (opt.keep_log) { res.log = logs[0]; res.log.push_back("---- C++"); res.log.insert(res.log.end(), logs[1].begin(), logs[1].end()); }
  return res;
}

} // namespace sim
