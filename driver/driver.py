#!/usr/bin/env python3
"""Driver of the deterministic-simulation checks (DESIGN.md §3.1, §3.9-3.11).

usage: driver.py <property> <quick|thorough>

Partitions a seed range over workers (one process per chunk, restarted after a crash),
classifies candidate violations, gates them (two fresh-process replays must agree),
minimises them, matches the known-findings file, writes evidence/<ID>.json and prints
`VIOLATION property=<ID> replay=<path>` / `KNOWN-FINDING: ...` lines.
Exit: 0 property held on everything explored, 1 violation, 2 machinery fault.
"""
import concurrent.futures as cf
import threading
import hashlib
import json
import os
import re
import subprocess
import sys
import time
import urllib.parse

V = os.path.dirname(os.path.dirname(os.path.abspath(__file__)))
BUILD = os.environ.get("VERIF_BUILD", os.path.join(V, "build"))
REPLAYS = os.environ.get("VERIF_REPLAYS", os.path.join(V, "replays"))
EVID = os.environ.get("VERIF_EVID", os.path.join(V, "evidence"))
NCPU = int(os.environ.get("VERIF_JOBS", "16"))

# ---------------------------------------------------------------------------------------------
# per-property configuration: batches = (label, flavour, binary, mode, focus, runs_quick, runs_thorough)
CONFIG = {
    "C14": dict(level="exploration", batches=[("hist/asan", "asan", "yaepsim", "hist", 0, 6000, 120000),
                                               ("hist/plain", "plain", "yaepsim", "hist", 0, 16000, 500000),
                                               # perturb plans are histories too (one task, config flips, long inputs): memory safety
                                               ("perturb/asan", "asan", "yaepsim", "perturb", 0, 1500, 40000),
                                               # one ANSI C grammar object parsing many different translation units
                                               ("ansichist/plain", "plain", "yaepsim", "ansichist", 0, 480, 12000),
                                               ("ansichist/asan", "asan", "yaepsim", "ansichist", 0, 96, 3000)]),
    "C15": dict(level="exploration", batches=[("hist/asan", "asan", "yaepsim", "hist", 1, 6000, 120000),
                                               ("hist/plain", "plain", "yaepsim", "hist", 1, 16000, 500000),
                                               ("oom/plain", "plain", "yaepsim", "oom", 1, 6000, 120000)]),
    "C13": dict(level="exploration", batches=[("hist/asan", "asan", "yaepsim", "hist", 2, 6000, 120000),
                                               ("hist/plain", "plain", "yaepsim", "hist", 2, 16000, 500000)]),
    "C16": dict(level="exploration", batches=[("hist/asan", "asan", "yaepsim", "hist", 3, 6000, 120000),
                                               ("hist/plain", "plain", "yaepsim", "hist", 3, 16000, 500000)]),
    "C09": dict(level="exploration", batches=[("perturb/asan", "asan", "yaepsim", "perturb", 0, 2500, 60000),
                                               ("perturb/plain", "plain", "yaepsim", "perturb", 0, 9000, 400000),
                                               ("perturb-q1/plain", "plain", "yaepsim_q1", "perturb", 0, 3000, 100000),
                                               ("ansic/plain", "plain", "yaepsim", "ansic", 0, 3000, 60000),
                                               ("ansic/asan", "asan", "yaepsim", "ansic", 0, 96, 3000)]),
    "C19": dict(level="exploration", batches=[("cont/asan", "asan", "contsim", "cont", 0, 30000, 1500000),
                                               ("cont/plain", "plain", "contsim", "cont", 0, 60000, 6000000),
                                               ("contfail/asan", "asan", "contsim", "contfail", 0, 15000, 700000),
                                               ("contfail/plain", "plain", "contsim", "contfail", 0, 30000, 3000000)]),
    "C17": dict(level="fault_enumeration", batches=[("oom/asan", "asan", "yaepsim", "oom", 0, 5000, 60000),
                                                     ("oom/plain", "plain", "yaepsim", "oom", 0, 10000, 200000)]),
}
CHUNK = 250  # runs per worker process (workers are recycled: DESIGN.md §3.9)
# Workers that keep dying mean a tree that is broken beyond doubt: after this many worker deaths in one check the
# remaining chunks are not started (the deaths already seen are triaged as usual).
MAX_WORKER_DEATHS = 24
_deaths = [0]
_max_deaths = [MAX_WORKER_DEATHS]
_deaths_lock = threading.Lock()
# C17: exhaustive enumeration of the failing request k over the scenario corpus (yaepsim --oomenum).
# quick enumerates a seeded slice of the corpus, thorough all of it, in both flavours.
ENUM = {"C17": dict(quick=[("enum/asan", "asan", 12), ("enum/plain", "plain", 40)], thorough=[("enum/asan", "asan", None), ("enum/plain", "plain", None)])}

RULE_CONT = ("one evaluation = one simulated run: a seeded sequence of 13-203 container operations (hash table, object stack, VLO) executed on the C "
             "implementation and on the C++ implementation under the simulated allocator (placement, poison, realloc policy, knob presets, and in the "
             "contfail batches failure of the k-th request of an operation), checked against map/vector/byte-string models after every operation; "
             "distinct = distinct hashes of the sequence (operation kind, outcome, which containers exist); every run has at least 13 operations")
REAL_VS_STUB = {
    "real": ["src/yaep.c (all of it, incl. error recovery and translation)", "src/sgramm.y (bison-generated from the tree)",
             "src/allocate.c", "src/hashtab.c objstack.c vlobject.c", "src/hashtab.cpp objstack.cpp vlobject.cpp", "src/yaep.cpp (class yaep)"],
    "simulated": ["libc heap under allocate.c (malloc/calloc/realloc/free)", "default parse-tree allocator (malloc/free in yaep.c)",
                  "operator new/delete inside libyaep++", "exit()", "stderr (debug sink)",
                  "caller callbacks: read_terminal, read_rule, read_token, syntax_error, parse_alloc, parse_free, termcb"],
    "stubbed": [],
}


def unq(s):
    return urllib.parse.unquote(s)


def load_known():
    path = os.path.join(V, "known_findings.json")
    if not os.path.exists(path):
        return {"findings": [], "fixed": []}
    with open(path) as f:
        return json.load(f)


def match_known(known, prop, cls):
    """cls = prop/kind/site.  A finding lists regexes for kind and site."""
    _, kind, site = cls.split("/", 2)
    for kf in known.get("findings", []):
        if kf.get("property") not in (prop, "*"):
            if prop not in kf.get("also_properties", []):
                continue
        m = kf.get("match", {})
        if re.search(m.get("kind", ".*"), kind) and re.search(m.get("site", ".*"), site):
            return kf
    return None


class Batch:
    def __init__(self, label, flavour, binary, mode, focus, runs, seed0):
        self.label, self.flavour, self.binary, self.mode, self.focus, self.runs, self.seed0 = label, flavour, binary, mode, focus, runs, seed0
        self.exe = os.path.join(BUILD, flavour, binary)
        self.ok = 0
        self.runs_done = 0
        self.stats = {}
        self.cands = []       # (seed, cls, detail, probe)
        self.crashes = []     # seeds
        self.hashes = {}      # seed -> log hash
        self.shapes = set()
        self.samples = []
        self.probe_viol = {}


def merge_stats(dst, src):
    for k, v in src.items():
        if isinstance(v, dict):
            d = dst.setdefault(k, {})
            for kk, vv in v.items():
                d[kk] = d.get(kk, 0) + vv
        elif isinstance(v, (list, set)):
            dst.setdefault(k, set()).update(v)
        else:
            dst[k] = dst.get(k, 0) + v


def run_chunk(exe, mode, focus, a, b, want_shapes):
    """Runs seeds [a,b) in worker processes; restarts after a crash.  Returns parsed results."""
    out = dict(ok=0, runs=0, stats={}, cands=[], crashes=[], hashes={}, shapes=[], samples=[])
    cur = a
    guard = 0
    while cur < b and guard < 64:
        guard += 1
        if _deaths[0] >= _max_deaths[0]:
            out["abandoned"] = b - cur
            break
        if len(out["crashes"]) >= 6:
            # a tree on which workers keep dying is broken beyond doubt: do not spend a process per seed on it
            out["abandoned"] = b - cur
            break
        cmd = [exe, "--mode", mode, "--focus", str(focus), "--seeds", "%d:%d" % (cur, b)]
        if want_shapes:
            cmd.append("--shapes")
        try:
            p = subprocess.run(cmd, stdout=subprocess.PIPE, stderr=subprocess.PIPE, timeout=600)
            text = p.stdout.decode("utf-8", "replace")
            timed_out = False
        except subprocess.TimeoutExpired as e:
            text = (e.stdout or b"").decode("utf-8", "replace")
            timed_out = True
        last = None
        complete = False
        recycle = False
        for line in text.splitlines():
            if line.startswith("RUN "):
                last = int(line.split()[1])
            elif line.startswith("OK "):
                w = line.split()
                out["ok"] += 1
                out["runs"] += 1
                out["hashes"][int(w[1])] = w[2]
            elif line.startswith("VIOL "):
                w = line.split()
                out["runs"] += 1
                out["hashes"][int(w[1])] = w[2]
            elif line.startswith("V "):
                f = dict(x.split("=", 1) for x in line[2:].split(" ") if "=" in x)
                cls = "%s/%s/%s" % (f["prop"], f["kind"], unq(f["site"]))
                out["cands"].append((int(f["seed"]), cls, unq(unq(f.get("detail", ""))), f.get("probe") == "1"))
            elif line.startswith("SHAPE "):
                w = line.split()
                out["shapes"].append(w[2])
                if w[-1].startswith("sample=") and w[-1] != "sample=-" and len(out["samples"]) < 2:
                    out["samples"].append(unq(w[-1][7:]))
            elif line.startswith("STATS "):
                merge_stats(out["stats"], json.loads(line[6:]))
                complete = True
            elif line.startswith("RECYCLE "):
                recycle = True
        if complete and not recycle:
            break
        if complete and recycle:
            cur = last + 1
            continue
        # the worker died (sanitizer abort, signal, timeout) during seed `last`
        with _deaths_lock:
            _deaths[0] += 1
        if last is None:
            out["crashes"].append((cur, "worker produced no output%s" % (" (timeout)" if timed_out else "")))
            cur += 1
        else:
            out["crashes"].append((last, "timeout" if timed_out else "worker died"))
            out["runs"] += 1
            cur = last + 1
    return out


def run_enum_chunk(exe, scen_from, scen_to):
    """Enumerates scenarios [scen_from, scen_to); restarts after a crash behind the crashed (scenario, backend, op, k)."""
    out = dict(ok=0, runs=0, stats={}, cands=[], crashes=[], hashes={}, shapes=[], samples=[], sceninfo=[])
    cur = scen_from
    resume = None
    guard = 0
    while cur < scen_to and guard < 200:
        guard += 1
        cmd = [exe, "--oomenum", "--from", str(cur), "--to", str(scen_to)]
        if resume:
            cmd += ["--resume"] + [str(x) for x in resume]
        try:
            p = subprocess.run(cmd, stdout=subprocess.PIPE, stderr=subprocess.PIPE, timeout=3000)
            text = p.stdout.decode("utf-8", "replace")
        except subprocess.TimeoutExpired as e:
            text = (e.stdout or b"").decode("utf-8", "replace")
        last = None
        complete = False
        recycle = False
        for line in text.splitlines():
            if line.startswith("ENUM "):
                last = tuple(int(x) for x in line.split()[1:5])
                out["runs"] += 1
            elif line.startswith("V "):
                f = dict(x.split("=", 1) for x in line[2:].split(" ") if "=" in x)
                cls = "%s/%s/%s" % (f["prop"], f["kind"], unq(f["site"]))
                emit = (int(f["scen"]), int(f["b"]), int(f["op"]), int(f["k"]))
                out["cands"].append((emit, cls, unq(unq(f.get("detail", ""))), f.get("probe") == "1"))
            elif line.startswith("SCENINFO "):
                w = line.split()
                out["sceninfo"].append(dict(scenario=int(w[1]), backend=int(w[2]), op=int(w[3]), requests=int(w[4].split("=")[1]),
                                            enumerated=int(w[5].split("=")[1]), exhaustive=w[6].endswith("1"), name=w[7].split("=", 1)[1]))
            elif line.startswith("STATS "):
                merge_stats(out["stats"], json.loads(line[6:]))
                complete = True
            elif line.startswith("RECYCLE "):
                recycle = True
        if complete and not recycle:
            break
        if last is None:
            out["crashes"].append(((cur, 1, -1, 0), "enumeration worker produced no output"))
            cur += 1
            resume = None
            continue
        if not complete:
            out["crashes"].append((last, "worker died"))
        # resume behind the run that ended the process
        cur = last[0]
        resume = (last[1], last[2] if last[2] >= 0 else 0, last[3] if last[2] >= 0 else 0)
        if last[2] < 0:  # the fault-free pass of (scenario, backend) itself failed: skip this backend
            if last[1] == 1:
                resume = (2, 0, 0)
            else:
                cur = last[0] + 1
                resume = None
    out["ok"] = out["stats"].get("clean", 0)
    return out


def run_batch(batch, pool):
    futs = []
    a = batch.seed0
    end = batch.seed0 + batch.runs
    first = True
    chunk = 16 if batch.mode == "ansic" else 24 if batch.mode == "ansichist" else CHUNK
    while a < end:
        b = min(end, a + chunk)
        futs.append(pool.submit(run_chunk, batch.exe, batch.mode, batch.focus, a, b, True))
        first = False
        a = b
    return futs


def enum_summary(enum_batches, n_scen):
    if not enum_batches:
        return None
    res = []
    for eb in enum_batches:
        info = eb.sceninfo
        res.append(dict(label=eb.label, scenarios_in_corpus=n_scen, scenarios_enumerated=len(eb.scens),
                        faulted_operations=len(info), requests_total=sum(i["requests"] for i in info),
                        k_values_run=sum(i["enumerated"] for i in info), all_k_exhaustive=all(i["exhaustive"] for i in info),
                        max_requests_in_one_operation=max([i["requests"] for i in info] or [0]),
                        sample=[i for i in info[:3]]))
    return res


def chain_file(prop, flavour, binary, mode, focus, lo, hi, why):
    """A violation that needs the preceding runs of its worker process: the replay file names the seed range."""
    tag = hashlib.sha1(("%s%s%s%d%d" % (flavour, mode, binary, lo, hi)).encode()).hexdigest()[:10]
    path = os.path.join(REPLAYS, "%s-chain-%s.plan" % (prop, tag))
    with open(path, "w") as f:
        f.write("# %s\nyaepsim-chain 1\nchain flavour=%s binary=%s mode=%s focus=%d from=%d to=%d\n" % (why, flavour, binary, mode, focus, lo, hi + 1))
    return path


def sh(cmd, timeout=900):
    p = subprocess.run(cmd, stdout=subprocess.PIPE, stderr=subprocess.STDOUT, timeout=timeout)
    return p.returncode, p.stdout.decode("utf-8", "replace")


def classify(exe, plan_path):
    rc, out = sh([exe, "--classify", plan_path])
    classes = []
    h = None
    for line in out.splitlines():
        if line.startswith("CLASS "):
            c, _, d = line[6:].partition(" | ")
            classes.append((c.strip(), d))
        elif line.startswith("HASH "):
            h = line[5:].strip()
    return classes, h


def main():
    if len(sys.argv) < 3 or sys.argv[1] not in CONFIG:
        print(__doc__)
        return 2
    prop, tier = sys.argv[1], sys.argv[2]
    cfg = CONFIG[prop]
    t0 = time.time()
    seed = int(os.environ.get("VERIF_SEED", "1"))
    os.makedirs(REPLAYS, exist_ok=True)
    os.makedirs(EVID, exist_ok=True)
    rc, out = sh([os.path.join(V, "bin", "build"), "all"], timeout=1800)
    if rc != 0:
        print(out[-3000:])
        print("build failed")
        return 2
    t_build = time.time() - t0
    os.environ["VSIM_ORACLE_EXE"] = os.path.join(BUILD, "plain", "yaepsim")
    os.environ["VSIM_ANSIC_DESC"] = os.path.join(BUILD, "plain", "gen", "ansic_desc.txt")
    os.environ["VSIM_ANSIC_TOKS"] = os.path.join(BUILD, "plain", "gen", "ansic_toks.txt")
    if tier == "quick":
        os.environ.setdefault("VSIM_ANSIC_MAXTOK", "6000")
    known = load_known()
    scale = float(os.environ.get("VERIF_SCALE", "1"))
    batches = []
    for i, (label, flavour, binary, mode, focus, rq, rt) in enumerate(cfg["batches"]):
        runs = int((rq if tier == "quick" else rt) * scale)
        if runs <= 0:
            continue
        # seed blocks: pool seed = seed >> 8, so VERIF_SEED moves every batch to fresh pools
        seed0 = (seed * 64 + i * 7 + focus) << 24
        batches.append(Batch(label, flavour, binary, mode, focus, runs, seed0))
    # the cap scales with the size of the check: known finding KF-1 alone kills about one worker in 4000 runs
    _max_deaths[0] = MAX_WORKER_DEATHS + sum(b.runs for b in batches) // 1500
    enum_batches = []
    n_scen = 0
    if prop in ENUM:
        rc, out = sh([os.path.join(BUILD, "plain", "yaepsim"), "--oomenum", "--list"])
        n_scen = int(out.split()[1]) if out.startswith("SCENARIOS") else 0
        for (label, flavour, nslice) in ENUM[prop][tier]:
            eb = Batch(label, flavour, "yaepsim", "oomenum", 0, 0, 0)
            eb.sceninfo = []
            if nslice is None:
                eb.scens = list(range(n_scen))
            else:  # seeded slice, spread over the corpus
                import random
                rnd = random.Random(seed * 1000 + len(enum_batches))
                eb.scens = sorted(rnd.sample(range(n_scen), min(nslice, n_scen)))
            enum_batches.append(eb)
    with cf.ThreadPoolExecutor(max_workers=NCPU) as pool:
        allf = []
        for eb in enum_batches:  # long scenarios first in the queue
            for sc in eb.scens:
                allf.append((eb, pool.submit(run_enum_chunk, eb.exe, sc, sc + 1)))
        for b in batches:
            for f in run_batch(b, pool):
                allf.append((b, f))
        for b, f in allf:
            r = f.result()
            b.ok += r["ok"]
            b.runs_done += r["runs"]
            merge_stats(b.stats, r["stats"])
            b.cands += r["cands"]
            b.crashes += r["crashes"]
            b.hashes.update(r["hashes"])
            b.shapes.update(r["shapes"])
            if len(b.samples) < 2:
                b.samples += r["samples"]
            b.abandoned = getattr(b, "abandoned", 0) + r.get("abandoned", 0)
            if "sceninfo" in r:
                b.sceninfo += r["sceninfo"]
    t_run = time.time() - t0 - t_build
    batches_seeded = list(batches)
    batches = batches + enum_batches

    # determinism audit in miniature: re-run a sample of seeds in fresh single-run processes
    deaths_in_batches = _deaths[0]
    _deaths[0] = -10**9  # the cap on worker deaths is for the batches only
    audit_total = audit_bad = 0
    audit_bad_seeds = []
    for b in batches_seeded:
        n_audit = 12 if tier == "quick" else (40 if b.mode == "ansic" else 2500)
        seeds = sorted(b.hashes)[:: max(1, len(b.hashes) // n_audit)][:n_audit]
        with cf.ThreadPoolExecutor(max_workers=NCPU) as pool:
            futs = {s: pool.submit(run_chunk, b.exe, b.mode, b.focus, s, s + 1, False) for s in seeds}
            for s, f in futs.items():
                r = f.result()
                if s not in r["hashes"]:
                    continue  # the run died in the fresh process too: it is a crash candidate, not an audit result
                audit_total += 1
                if r["hashes"].get(s) != b.hashes[s]:
                    audit_bad += 1
                    audit_bad_seeds.append((b.label, s))

    # A run whose event log in a fresh process differs from its event log inside the worker: either the harness is not
    # deterministic (machinery fault) or the library's behaviour depends on earlier runs of the same process - which is
    # exactly a violation of C14.  Decide by repeating both executions.
    cross_run = []
    machinery_audit = []
    for (label, s) in audit_bad_seeds:
        b = [x for x in batches_seeded if x.label == label][0]
        lo = b.seed0 + ((s - b.seed0) // CHUNK) * CHUNK
        fresh2 = run_chunk(b.exe, b.mode, b.focus, s, s + 1, False)["hashes"].get(s)
        fresh3 = run_chunk(b.exe, b.mode, b.focus, s, s + 1, False)["hashes"].get(s)
        chain2 = run_chunk(b.exe, b.mode, b.focus, lo, s + 1, False)["hashes"].get(s)
        if fresh2 == fresh3 and chain2 == b.hashes[s] and fresh2 != chain2:
            why = "run %d behaves differently after runs %d..%d of the same process than in a fresh process" % (s, lo, s - 1)
            cross_run.append(("C14/depends_on_earlier_runs/%s" % b.mode, chain_file("C14", b.flavour, b.binary, b.mode, b.focus, lo, s, why), why))
        else:
            machinery_audit.append((label, s))
    audit_bad_seeds = machinery_audit
    audit_bad = len(machinery_audit)

    # ---- triage of candidates for this property
    violations = []      # (cls, replay_path, detail)
    if prop == "C14":
        violations += cross_run
    known_hits = {}      # kf id -> count
    machinery = []
    other_props = {}
    probe_counts = {}
    todo = {}            # cls -> list of (batch, seed, detail)
    for b in batches:
        for (s, cls, detail, probe) in b.cands:
            p = cls.split("/")[0]
            if probe:
                probe_counts[cls] = probe_counts.get(cls, 0) + 1
                continue
            if p != prop:
                other_props[cls] = other_props.get(cls, 0) + 1
                continue
            todo.setdefault(cls, []).append((b, s, detail))
        for (s, why) in b.crashes:
            # worker deaths are triaged per batch: deaths of one batch (e.g. the known finding in hist/asan) must not
            # use up the triage budget of another batch
            todo.setdefault("CRASH " + b.label, []).append((b, s, why))
    n_triaged = 0
    for cls, items in sorted(todo.items()):
        seen_final = set()
        repeats = 0
        is_crash = cls.startswith("CRASH")
        if is_crash:
            cls = "CRASH"
        for (b, s, detail) in items[: (3 if not is_crash else 16)]:
            if repeats >= 3:
                break  # worker deaths keep classifying to (unlisted) classes already seen
            n_triaged += 1
            if isinstance(s, tuple):
                plan_path = os.path.join(BUILD, "cand-%s-%s-enum-%d-%d-%d-%d.plan" % ((prop, b.flavour) + s))
                rc, text = sh([b.exe, "--oomenum", "--emit"] + [str(x) for x in s])
            else:
                plan_path = os.path.join(BUILD, "cand-%s-%s-%d.plan" % (prop, b.flavour, s))
                rc, text = sh([b.exe, "--mode", b.mode, "--focus", str(b.focus), "--emit-plan", str(s)])
            with open(plan_path, "w") as f:
                f.write(text)
            c1, h1 = classify(b.exe, plan_path)
            c2, h2 = classify(b.exe, plan_path)
            set1, set2 = set(c for c, _ in c1), set(c for c, _ in c2)
            if (set1 != set2 or h1 != h2) and (set1 | set2) and all(match_known(known, c.split("/")[0], c) for c in (set1 | set2)):
                # a listed finding that is undefined behaviour by nature (KF-1 reads past two arrays): whether the
                # out-of-bounds read ends in a crash depends on what lies behind the arrays in that process.  The
                # finding itself is identified deterministically (hook H6); only its manifestation varies.
                for c in (set1 | set2):
                    kf = match_known(known, c.split("/")[0], c)
                    known_hits[kf["id"]] = known_hits.get(kf["id"], 0) + 1
                continue
            if set1 != set2 or h1 != h2:
                machinery.append("seed %s (%s): replay is not reproducible: %s / %s" % (s, b.label, sorted(set1), sorted(set2)))
                continue
            mine = [(c, d) for c, d in c1 if c.split("/")[0] == prop]
            if cls != "CRASH" and cls not in set1 and isinstance(s, tuple):
                violations.append((cls, plan_path, "only reproduces inside the enumeration worker: " + detail))
                continue
            if cls != "CRASH" and cls not in set1:
                # the violation depends on earlier runs of the same worker process (history across runs)
                chain_lo = b.seed0 + ((s - b.seed0) // CHUNK) * CHUNK
                why = "only reproduces after the preceding runs of the same worker process: " + detail
                violations.append((cls, chain_file(prop, b.flavour, b.binary, b.mode, b.focus, chain_lo, s, why), why))
                continue
            if not mine:
                for c, _ in c1:
                    kf = match_known(known, c.split("/")[0], c)
                    if kf:   # a listed finding attributed to another property by the operation in flight
                        known_hits[kf["id"]] = known_hits.get(kf["id"], 0) + 1
                    else:
                        other_props[c] = other_props.get(c, 0) + 1
                continue
            if mine and all(c in seen_final for c, _ in mine):
                # repeats of a listed finding do not end the triage of this batch: a rarer, unlisted death may follow
                if not all(match_known(known, prop, c) for c, _ in mine):
                    repeats += 1
            for c, d in mine:
                if c in seen_final:
                    continue
                seen_final.add(c)
                kf = match_known(known, prop, c)
                if kf:
                    known_hits[kf["id"]] = known_hits.get(kf["id"], 0) + (1 if is_crash else len(items))
                    continue
                tag = hashlib.sha1((c + str(s)).encode()).hexdigest()[:10]
                outp = os.path.join(REPLAYS, "%s-%s.plan" % (prop, tag))
                rc, mt = sh([b.exe, "--minimize", plan_path, outp, c], timeout=1800)
                if rc != 0 or not os.path.exists(outp):
                    with open(outp, "w") as f:
                        f.write("# not minimised\n" + text)
                violations.append((c, outp, d))
    # violations found directly by class but whose minimisation class is known
    wall = time.time() - t0

    # ---- evidence
    tot_runs = sum(b.runs_done for b in batches)
    stats = {}
    for b in batches:
        merge_stats(stats, b.stats)
    triples = stats.pop("triples", set())
    adj = stats.pop("adjacencies", set())
    shapes = set()
    for b in batches:
        shapes |= b.shapes
    samples = []
    for b in batches:
        for sm in b.samples[:1]:
            samples.append({"batch": b.label, "plan_head": sm[:1200]})
    if not samples:
        samples = ["no run completed"]
    probes = stats.get("probes", {})
    if prop == "C19":
        expected_probes = ["ht_expanded", "ht_insert_after_remove", "ht_drain_cycle", "os_new_segment", "os_several_finished_objects",
                           "vlo_realloc_moved"]
    else:
        expected_probes = ["hash_table_expanded", "realloc_moved", "goto_cache_hit", "alt_node", "error_node_in_tree",
                           "nil_node_in_tree", "parse_lookahead2", "syntax_error_reported", "cost_flag_parse", "all_parses"]
        if any(b.mode in ("hist", "oom", "ansichist") for b in batches):   # history probes only exist in history modes
            expected_probes += ["parse_freed_nodes", "redefinition", "failed_redefinition", "define_after_failed_define",
                                "free_of_non_current_grammar", "tree_walked_after_grammar_freed", "quiescent_point"]
    zero_probes = [p for p in expected_probes if probes.get(p, 0) == 0]
    ev = {
        "property_id": prop,
        "tier": tier,
        "seed": seed,
        "level": cfg["level"],
        "wall_s": round(wall, 2),
        "violations": len(violations),
        "coverage": {
            "evaluations": tot_runs,
            "distinct_nontrivial": len(shapes),
            "rule": RULE_CONT if prop == "C19" else "one evaluation = one simulated run (a seeded plan of 6-40 API operations by 1-3 client tasks, executed on libyaep and on "
                    "libyaep++ under the simulated heap, readers and allocator callbacks); distinct = distinct hashes of the abstract history "
                    "(task, op kind, abstract object state before, outcome class, allocator mode, fault kind) per run; every run has at least 6 "
                    "operations and at least one definition or parse, so each distinct history is non-trivial",
            "samples": samples,
            "batches": [dict(label=b.label, flavour=b.flavour, mode=b.mode, focus=b.focus, seed_from=b.seed0, seed_to=b.seed0 + b.runs,
                             runs=b.runs_done, clean=b.ok, worker_deaths=len(b.crashes)) for b in batches],
            "enumeration": enum_summary(enum_batches, n_scen),
            "exhaustive": False,
            "runs_per_hour": int(tot_runs / max(t_run, 1e-3) * 3600),
            "seeds_per_hour": int(tot_runs / max(t_run, 1e-3) * 3600),
            "simulated_time": "not applicable: yaep has no clock, timer or deadline; simulated steps are reported instead",
            "simulated_steps": {k: stats.get(k, 0) for k in ["ops", "ops_skipped", "alloc_events", "callbacks", "parses", "parses_ok",
                                                            "defines", "defines_ok", "trees"]},
            "heap": stats.get("heap", {}),
            "faults_fired": stats.get("faults", {}),
            "reach_probes": probes,
            "reach_probes_at_zero": zero_probes,
            "distinct_state_op_outcome_triples": len(triples),
            "distinct_cross_object_adjacencies": len(adj),
            "distinct_history_shapes": len(shapes),
            "twin_oracle": {"queries": stats.get("twin_queries", 0), "memo_hits": stats.get("twin_hits", 0),
                            "denoted_set_comparisons": stats.get("denot_compared", 0), "undecided_large": stats.get("undecided_large", 0)},
            "determinism_audit": {"replayed_in_fresh_process": audit_total, "hash_mismatches": audit_bad,
                                  "deterministic_dependence_on_earlier_runs": len(cross_run)},
            "candidates_triaged": n_triaged,
            "worker_deaths_in_batches": deaths_in_batches,
            "runs_abandoned_after_death_cap": sum(getattr(b, "abandoned", 0) for b in batches),
            "non_gating_probe_results": probe_counts,
            "violations_of_other_properties_seen": other_props,
            "known_findings_observed": known_hits,
            "real_vs_stub": REAL_VS_STUB,
            "build_s": round(t_build, 1),
        },
        "assumptions": [
            "sampling: a clean batch is evidence for the explored plans only",
            "the fresh-twin oracle is the code itself run on a new object in a pristine process: it decides independence of history, not correctness of the answer",
            "API use is sequential (one call at a time, no nested calls from callbacks), as documented",
            "caller-supplied parse_alloc never returns NULL; symbol names are at most 16 characters",
        ],
    }
    with open(os.path.join(EVID, prop + ".json"), "w") as f:
        json.dump(ev, f, indent=1, sort_keys=True, default=lambda o: sorted(o) if isinstance(o, set) else str(o))

    # ---- verdict
    for kf in known.get("findings", []):
        if kf.get("property") == prop or prop in kf.get("also_properties", []):
            print("KNOWN-FINDING: property=%s %s: %s (observed %d times in this run)" % (prop, kf["id"], kf["what"], known_hits.get(kf["id"], 0)))
    print("%s %s: %d runs in %.0fs (build %.0fs), %d distinct histories, %d candidates triaged, audit %d/%d deterministic" %
          (prop, tier, tot_runs, wall, t_build, len(shapes), n_triaged, audit_total - audit_bad, audit_total))
    if audit_bad:
        machinery.append("determinism audit: %d of %d runs have another event-log hash in a fresh process: %s" % (audit_bad, audit_total, audit_bad_seeds[:5]))
    if violations:
        seen = set()
        for c, path, d in violations:
            if c in seen:
                continue
            seen.add(c)
            print("VIOLATION property=%s replay=%s" % (prop, path))
            print("  class=%s %s" % (c, d[:300]))
        return 1
    if machinery:
        for m in machinery:
            print("MACHINERY-FAULT: " + m)
        return 2
    return 0


if __name__ == "__main__":
    sys.exit(main())
